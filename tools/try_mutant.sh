#!/bin/bash
# usage: tools/try_mutant.sh <patch.diff> <ID> [<ID>...]   (applies to /repo, runs quick checks, reverts)
patch="$(realpath "$1")"; shift
cd /repo || exit 2
if ! git diff --quiet; then echo "/repo dirty"; exit 2; fi
if ! git apply "$patch" 2>/dev/null && ! git apply --3way "$patch"; then echo "patch does not apply"; git reset -q --hard HEAD; exit 2; fi
for id in "$@"; do
  out=$(cd /verif && VERIF_OUT_DIR=/tmp/mut-out ./check "$id" ${TIER:-quick} 2>&1)
  rc=$?
  echo "== $id rc=$rc"; echo "$out" | grep -E "violation:|VIOLATION|KNOWN|INCONCLUSIVE|evaluations" | cut -c1-400 | head -8
done
git reset -q --hard HEAD; git status --short | head -3
