#!/usr/bin/env python3
"""Regenerates the seeded-change table in DESIGN.md from seeded/RESULTS.tsv."""
import json, os, re
root = os.path.dirname(os.path.dirname(os.path.abspath(__file__)))
rows = []
lines = {}
for name in ["RESULTS-rounds12.tsv", "RESULTS-rounds345.tsv", "RESULTS-round6.tsv", "RESULTS.tsv"]:
    fp = os.path.join(root, "seeded", name)
    if os.path.exists(fp):
        for l in open(fp):
            if l.strip():
                lines[l.split("\t")[0]] = l  # a later run of the same change replaces the earlier one
for l in [lines[k] for k in sorted(lines)]:
    f = l.rstrip("\n").split("\t")
    m = f[0]
    meta = json.load(open(os.path.join(root, "seeded", m, "meta.json")))
    if len(f) == 2:
        rows.append((m, meta, [], f[1]))
        continue
    hits = []
    for x in f[1:]:
        cid, r = x.split("=", 1)
        rc = r.split(":", 1)[0]
        sig = r.split(":", 1)[1] if ":" in r else ""
        if rc == "1":
            hits.append((cid, sig))
        elif rc != "0":
            hits.append((cid + "?", "exit " + rc))
    rows.append((m, meta, hits, ""))
out = ["| change | what it does (one line) | needs | caught by (quick tier; first signature) |", "|---|---|---|---|"]
missed = []
for m, meta, hits, note in rows:
    own = m.split("-")[0]
    summ = (meta.get("summary") or "").replace("\n", " ").replace("|", "/")
    needs = (meta.get("needs_to_manifest") or "").replace("\n", " ").replace("|", "/")
    cut = lambda s, n: s if len(s) <= n else s[: n - 1].rstrip() + "…"
    caught = ", ".join(f"**{c}** `{s}`" if c == own else f"{c} `{s}`" for c, s in hits) or note or "— (missed)"
    if not any(c == own for c, _ in hits):
        missed.append(m)
    out.append(f"| {m} | {cut(summ, 170)} | {cut(needs, 150)} | {caught} |")
out.append("")
out.append(f"{len(rows)} changes; {len(rows) - len(missed)} caught by the check of the property they were written against" + (f"; not caught by their own check: {', '.join(missed)}" if missed else "") + ".")
p = os.path.join(root, "DESIGN.md")
s = open(p).read()
s = re.sub(r"<!-- SEEDED-TABLE-BEGIN -->.*?<!-- SEEDED-TABLE-END -->", "<!-- SEEDED-TABLE-BEGIN -->\n" + "\n".join(out) + "\n<!-- SEEDED-TABLE-END -->", s, flags=re.S)
open(p, "w").write(s)
print("table:", len(rows), "rows; missed:", missed)
