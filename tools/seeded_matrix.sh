#!/bin/bash
# Runs every seeded change against every check's quick tier, on a private copy of /repo and of
# the harness (so /repo and /verif are never modified). Writes /verif/seeded/RESULTS.tsv.
# usage: tools/seeded_matrix.sh [mutant-dir-name ...]   (default: all)
set -u
W=/var/tmp/kvm
rm -rf $W; mkdir -p $W
git -C /repo worktree prune
git -C /repo worktree add -q --detach $W/repo HEAD || exit 2
mkdir -p $W/verif; cp -r /verif/harness $W/verif/harness; rm -rf $W/verif/harness/target
cp /verif/known_findings.json $W/verif/; cp -r /verif/regress $W/verif/regress
sed -i "s#path = \"/repo\"#path = \"$W/repo\"#" $W/verif/harness/Cargo.toml
export CARGO_NET_OFFLINE=true
IDS="C01 C02 C03 C04 C05 C06 C07 C08 C09 C10 C11 C12 C13 C14 C15 C16 C17 C18 C19 C20"
OUT=$W/RESULTS.tsv; : > $OUT
muts="$@"; [ -z "$muts" ] && muts=$(ls /verif/seeded | grep -E '^C[0-9]+-[AB]$')
cd $W/verif/harness && cargo build --release --quiet 2>/dev/null
for m in $muts; do
  cd $W/repo && git checkout -q -- . && git apply /verif/seeded/$m/patch.diff || { echo -e "$m\tAPPLY-FAILED" >> $OUT; continue; }
  cd $W/verif/harness && if ! cargo build --release --quiet 2>/dev/null; then echo -e "$m\tBUILD-FAILED" >> $OUT; continue; fi
  line="$m"
  for id in $IDS; do
    VERIF_OUT_DIR=$W/out/$m timeout 900 ./target/release/kv run $id quick > $W/last.log 2>&1; rc=$?
    sig=$(grep -m1 -oE "^violation: [^ ]+" $W/last.log | cut -d' ' -f2)
    line="$line\t$id=$rc${sig:+:$sig}"
  done
  echo -e "$line" >> $OUT
done
cd $W/repo && git checkout -q -- .
cp $OUT /verif/seeded/RESULTS.tsv
cd /; git -C /repo worktree remove --force $W/repo; rm -rf $W
echo done
