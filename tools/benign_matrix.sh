#!/bin/bash
# Runs property-PRESERVING changes (/verif/benign/<name>/patch.diff) against every check's quick
# tier, on a private copy of /repo and of the harness (so /repo and /verif are never modified).
# A non-zero exit of any check on such a change is a false alarm of the machinery (or the change
# is not in fact property-preserving: look at it). Writes /verif/benign/RESULTS.tsv.
# usage: tools/benign_matrix.sh [name ...]   (default: all);  SEEDS="1 2" by default;
#        W=<scratch dir> RESULT=<tsv> to run several instances side by side
set -u
W=${W:-/var/tmp/kvb}
RESULT=${RESULT:-/verif/benign/RESULTS.tsv}
rm -rf $W; mkdir -p $W
git -C /repo worktree prune
git -C /repo worktree add -q --detach $W/repo HEAD || exit 2
mkdir -p $W/verif; cp -r /verif/harness $W/verif/harness; rm -rf $W/verif/harness/target
cp /verif/known_findings.json $W/verif/; cp -r /verif/regress $W/verif/regress; cp -r /verif/regress-known $W/verif/regress-known 2>/dev/null
sed -i "s#path = \"/repo\"#path = \"$W/repo\"#" $W/verif/harness/Cargo.toml
export CARGO_NET_OFFLINE=true
IDS="C01 C02 C03 C04 C05 C06 C07 C08 C09 C10 C11 C12 C13 C14 C15 C16 C17 C18 C19 C20"
SEEDS=${SEEDS:-"1 2"}
OUT=$W/RESULTS.tsv; : > $OUT
names="$@"; [ -z "$names" ] && names=$(ls /verif/benign | grep -v -E 'RESULTS|README')
cd $W/verif/harness && cargo build --release --quiet 2>/dev/null
mkdir -p $W/logs
for m in $names; do
  cd $W/repo && git checkout -q -- . && git clean -fdq && git apply /verif/benign/$m/patch.diff || { echo -e "$m\tAPPLY-FAILED" >> $OUT; continue; }
  tests=$(cd $W/repo && cargo test --offline --no-fail-fast 2>&1 | grep -E "^test result" | awk '{s+=$4; f+=$6} END {print s "p" f "f"}')
  cd $W/verif/harness && if ! cargo build --release --quiet 2>/dev/null; then echo -e "$m\tBUILD-FAILED" >> $OUT; continue; fi
  line="$m\ttests=$tests"
  for id in $IDS; do
    for seed in $SEEDS; do
      VERIF_SEED=$seed VERIF_OUT_DIR=$W/out/$m timeout 900 ./target/release/kv run $id quick > $W/last.log 2>&1; rc=$?
      if [ $rc -ne 0 ]; then
        cp $W/last.log $W/logs/$m-$id-$seed.log
        sig=$(grep -m1 -oE "^violation: [^ ]+" $W/last.log | cut -d' ' -f2)
        line="$line\t$id@$seed=$rc${sig:+:$sig}"
      fi
    done
  done
  echo -e "$line" >> $OUT
done
cd $W/repo && git checkout -q -- .
cp $OUT $RESULT
rm -rf $W-logs; cp -r $W/logs $W-logs
cd /; git -C /repo worktree remove --force $W/repo; rm -rf $W
echo done
