#!/bin/bash
# usage: confirm_mutant.sh <ID> <A|B> [patchfile]  -> writes /tmp/confirm/<ID>-<V>.txt
# Confirms a seeded change in a scratch worktree of /repo HEAD: applies, builds, 79 tests pass, demo fails with / passes without.
id=$1; v=$2; src=${SRC_BASE:-/tmp/wt-out}/$id/$v; patch=${3:-$src/patch.diff}
wt=/tmp/confirm/wt-$id-$v; out=/tmp/confirm/$id-$v.txt
rm -rf $wt; git -C /repo worktree prune; git -C /repo worktree add -q --detach $wt HEAD || exit 2
cd $wt; export CARGO_NET_OFFLINE=true
flags=""; [ "$id" = "C10" ] && flags="--cfg kismet_verif"
mkdir -p tests; cp $src/demo.rs tests/demo_$v.rs
{
echo "== $id/$v"
RUSTFLAGS="$flags" cargo test --offline --test demo_$v 2>&1 | grep -E "^test result|error(\[|:)" | head -3 | sed 's/^/clean-demo: /'
if git apply $patch 2>/dev/null; then echo "apply: ok"; else echo "apply: FAILED"; fi
cargo build --offline 2>&1 | grep -E "^error" | head -3 | sed 's/^/build: /'
cargo test --offline --lib 2>&1 | grep -E "^test result" | sed 's/^/unit: /'
cargo test --offline --doc 2>&1 | grep -E "^test result" | sed 's/^/doc: /'
RUSTFLAGS="$flags" cargo test --offline --test demo_$v 2>&1 | grep -E "^test result|panicked at|error(\[|:)" | head -4 | sed 's/^/mutant-demo: /'
} > $out 2>&1
cd /; git -C /repo worktree remove --force $wt
cat $out
