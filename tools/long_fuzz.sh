#!/bin/bash
# Long coverage-guided campaigns on the unchanged tree (bug hunting, not a registered check).
# usage: tools/long_fuzz.sh <seconds-per-target> [targets...]
secs=${1:-3600}; shift
targets=${@:-fuzz_conc_err fuzz_conc_content fuzz_history fuzz_dir fuzz_names}
cd "$(dirname "$0")/../harness" || exit 2
export CARGO_NET_OFFLINE=true RUSTFLAGS="--cfg kismet_verif -A unexpected_cfgs -A warnings"
cargo build --release --quiet 2>/dev/null
cargo +nightly fuzz build -s none --fuzz-dir ../fuzz 2>/dev/null | tail -1
work=/dev/shm/kv-longfuzz-$$; mkdir -p $work; chmod 777 $work
for t in $targets; do
  for i in 0 1 2; do
    mkdir -p $work/$t-c$i $work/$t-a$i; chmod 777 $work/$t-c$i $work/$t-a$i
    cp ../fuzz/seeds/$t/* $work/$t-c$i/ 2>/dev/null; chmod 666 $work/$t-c$i/* 2>/dev/null
    bin="$(pwd)/../fuzz/target/x86_64-unknown-linux-gnu/release/$t"
    ( cd $work && VERIF_SCRATCH=$work "$bin" $t-c$i -max_total_time=$secs -seed=$((i+11)) -len_control=0 -max_len=420 -print_final_stats=1 -artifact_prefix=$work/$t-a$i/ > $work/$t-log$i 2>&1 ) &
  done
done
wait
for t in $targets; do
  for i in 0 1 2; do
    ex=$(grep -h "stat::number_of_executed_units" $work/$t-log$i | awk '{print $2}')
    echo "$t proc $i: executions=$ex artifacts=$(ls $work/$t-a$i | wc -l)"
    for a in $work/$t-a$i/*; do [ -f "$a" ] && { ./target/release/kv fuzz-replay $t "$a" | head -2; cp "$a" /var/tmp/longfuzz-artifact-$t-$i-$(basename $a); }; done
  done
done
rm -rf $work
