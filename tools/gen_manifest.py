#!/usr/bin/env python3
"""Regenerates /verif/MANIFEST.json from the table in tools/checks.json (kept by hand)."""
import json, os, sys
root = os.path.dirname(os.path.dirname(os.path.abspath(__file__)))
props = [json.loads(l) for l in open(os.path.join(root, "properties.jsonl"))]
table = json.load(open(os.path.join(root, "tools", "checks.json")))
checks = []
claimed = set()
for pid in sorted(table["checks"]):
    c = table["checks"][pid]
    claimed.add(pid)
    checks.append({
        "property_id": pid,
        "quick_cmd": f"./check {pid} quick",
        "thorough_cmd": f"./check {pid} thorough",
        "evidence_file": f"/verif/evidence/{pid}.json",
        "replay_cmd_template": f"./check {pid} --replay {{path}}",
        "engine": c.get("engine", "kv"),
        "level_claimed": {"category": c["category"], "text": c["text"], "design_ref": c.get("design_ref", f"DESIGN.md section 3, {pid}")},
        "level_note": c["note"],
        "technique": c["technique"],
    })
na = [{"property_id": p["id"], "reason": table.get("not_applicable", {}).get(p["id"], "check under construction (see DESIGN.md section 9)")} for p in props if p["id"] not in claimed]
m = {
    "version": 1,
    "setup_cmd": "cd /verif/harness && CARGO_NET_OFFLINE=true cargo build --release 2>&1 | tail -3",
    "hooks": table["hooks"],
    "engines": table["engines"],
    "checks": checks,
    "notes": table.get("notes", ""),
    "not_applicable": na,
}
json.dump(m, open(os.path.join(root, "MANIFEST.json"), "w"), indent=1)
try:
    import jsonschema
    jsonschema.validate(m, json.load(open("/root/.vp/MANIFEST.schema.json")))
    print("MANIFEST.json valid;", len(checks), "checks,", len(na), "not claimed")
except ImportError:
    print("MANIFEST.json written (jsonschema not available to validate)")
