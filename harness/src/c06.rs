//! C06 — operations are non-blocking: a stalled or dead peer never prevents progress.
use crate::c05::{gen_with, Gen};
use crate::common::*;
use crate::fe::*;
use crate::sched::*;
use serde_json::json;
use std::path::Path;

const BUDGET: u32 = 3000;

fn c_op(kind: PKind, stacked: bool) -> u32 {
    match kind {
        PKind::Get | PKind::RoGet | PKind::Touch => if stacked { 30 } else { 20 },
        PKind::Set | PKind::Put | PKind::Maintain | PKind::StaleSet | PKind::SetOtherFs | PKind::RawPut => 60,
        PKind::Ensure | PKind::Promote | PKind::Replace => 120,
        PKind::Adversary => 10,
    }
}

/// Returns (non-trivial?, maximum steps used by an operation).
pub fn judge_exec(l: &Layout, strategy: &Sched, ex: &ExecOut) -> Result<(bool, u32), (String, String)> {
    if let Some(e) = ex.events.iter().find(|e| matches!(e.call, "flock" | "lockf" | "fcntl_lock")) {
        return Err(("c06:lock".into(), format!("a locking primitive was used: {}", e.short())));
    }
    let mut max_steps = 0;
    for h in &ex.hist {
        let entries = ex.events.iter().filter(|e| e.tid == h.tid && e.op == h.op as u32 && e.call == "readdir" && e.ret == 1).count() as u32;
        let bound = c_op(h.pop.kind, l.kind >= 2) + 8 * (entries + 1);
        max_steps = max_steps.max(h.steps);
        if h.over_budget {
            return Err(("c06:unbounded".into(), format!("participant {} op #{} {:?} made more than {} filesystem steps without completing (stopped by the harness) under {:?}", h.tid, h.op, h.pop.kind, BUDGET, strategy)));
        }
        if h.steps > bound {
            return Err(("c06:step-bound".into(), format!("participant {} op #{} {:?} used {} filesystem steps; bound is {} (constant {} + 8 x ({} directory entries + 1)) under {:?}", h.tid, h.op, h.pop.kind, h.steps, bound, c_op(h.pop.kind, l.kind >= 2), entries, strategy)));
        }
        match &h.ret {
            Ret::Panic(m) => return Err(("c06:panic".into(), format!("participant {} op #{} {:?} panicked: {}", h.tid, h.op, h.pop.kind, m))),
            Ret::Err(e) if h.pop.kind != PKind::StaleSet => {
                return Err(("c06:not-successful".into(), format!("participant {} op #{} {:?} returned Err({} {:?}: {}) with its peers frozen under {:?}", h.tid, h.op, h.pop.kind, e.kind, e.os, e.msg, strategy)));
            }
            _ => {}
        }
    }
    // non-trivial: somebody ran a whole operation while a peer was frozen strictly inside an
    // operation that had already made a mutating call
    let nontrivial = ex.hist.iter().any(|a| {
        let first_mut = ex.events.iter().filter(|e| e.tid == a.tid && e.op == a.op as u32 && matches!(e.call, "rename" | "link" | "unlink" | "mkdir" | "chmod" | "fchmod" | "futimens" | "utimensat" | "write")).map(|e| e.seq).min();
        match first_mut {
            Some(m) => ex.hist.iter().any(|b| b.tid != a.tid && b.call_seq > m && b.ret_seq < a.ret_seq),
            None => false,
        }
    });
    Ok((nontrivial, max_steps))
}

fn op_kinds(layout_kind: u8) -> Vec<PKind> {
    let mut v = vec![PKind::Set, PKind::Put, PKind::Get, PKind::Touch, PKind::Ensure, PKind::Maintain, PKind::StaleSet];
    if layout_kind >= 2 {
        v.push(PKind::Promote);
        v.push(PKind::Replace);
    }
    v
}

fn opts() -> RunOpts {
    RunOpts { yield_data: false, monitor: false, budget: BUDGET }
}

pub fn replay(v: &serde_json::Value) -> Result<(), String> {
    let c: ConcCase = serde_json::from_value(v["case"].clone()).map_err(|e| e.to_string())?;
    drop_privileges();
    let scratch = Scratch::new("c06r");
    prepare(&scratch.path, &c.layout);
    let ex = run_conc(&scratch.path, &c.layout, &c.progs, &c.strategy, opts());
    judge_exec(&c.layout, &c.strategy, &ex).map(|_| ()).map_err(|(s, d)| format!("{}: {}", s, d))
}

fn freeze_strategies(root: &Path, g: &Gen) -> Vec<Sched> {
    let n = g.progs.len();
    let solo = solo_steps(root, &g.layout, &g.progs, opts());
    let mut v = Vec::new();
    // every participant frozen at every one of its yield points, the others then run alone
    for frozen in 0..n {
        for at in 0..=solo[frozen] {
            v.push(Sched::Freeze { frozen, at });
        }
    }
    // random prefixes, then one participant alone with all others frozen where they are
    for (i, w) in g.walks.iter().enumerate() {
        v.push(Sched::PrefixSolo { prefix: w.clone(), solo: i % n });
    }
    v
}

pub fn run(ctx: &Ctx) -> Report {
    let mut rep = Report::default();
    rep.assumptions.insert(drop_privileges());
    let scratch = Scratch::new("c06");
    let root = scratch.path.clone();
    let sets = ctx.share(ctx.scale(480, 24000)) as u32;
    let rep_cell = std::cell::RefCell::new(&mut rep);
    let failing: std::cell::RefCell<Option<(ConcCase, String, String)>> = std::cell::RefCell::new(None);
    let found = prop_search(ctx, 6, sets, 40, &gen_with(false, vec![0, 1, 2, 3], vec![0, 1, 2, 3], 2, op_kinds, 2), |g, exploring| {
        for s in freeze_strategies(&root, g) {
            prepare(&root, &g.layout);
            let ex = run_conc(&root, &g.layout, &g.progs, &s, opts());
            clean(&root);
            let r = judge_exec(&g.layout, &s, &ex);
            if exploring {
                let mut rep = rep_cell.borrow_mut();
                let nontrivial = matches!(r, Ok((true, _)));
                rep.case(if nontrivial { Some(fnv(format!("{:?}{:?}{:?}", g.layout, g.progs, ex.picks).as_bytes())) } else { None });
                rep.label(match s { Sched::Freeze { .. } => "peer frozen at an enumerated yield point, others run alone", _ => "random prefix, then one participant alone" });
                rep.label(["layout:plain", "layout:sharded", "layout:stacked over plain", "layout:stacked over sharded"][g.layout.kind as usize % 4]);
                if let Ok((_, m)) = &r {
                    let cur = rep.extra.get("max_steps_of_any_operation").and_then(|v| v.as_u64()).unwrap_or(0);
                    // (kept as a maximum, not a sum: stored under a key merge() leaves alone)
                    if (*m as u64) > cur {
                        rep.extra.insert("max_steps_of_any_operation".into(), json!(*m));
                    }
                }
                if g.progs.iter().any(|p| p.iter().any(|o| o.kind == PKind::StaleSet)) {
                    rep.label("with a writer that stalled for hours before publishing");
                }
                if nontrivial && rep.samples.len() < 2 {
                    let smp = json!({"layout": g.layout, "programs": g.progs, "strategy": s, "picks": ex.picks});
                    rep.sample(smp);
                }
            }
            if let Err((sig, detail)) = r {
                *failing.borrow_mut() = Some((ConcCase { layout: g.layout.clone(), progs: g.progs.clone(), strategy: s.clone() }, sig.clone(), detail.clone()));
                return Err(format!("{}|{}", sig, detail));
            }
        }
        Ok(())
    });
    drop(rep_cell);
    if found.is_some() {
        if let Some((case, sig, detail)) = failing.borrow().clone() {
            rep.violation(&sig, detail, json!({"case": case}));
        }
    }
    rep
}
