//! Byte-level decoders for the coverage-guided fuzz targets (cargo-fuzz / libFuzzer): bytes are
//! decoded into the same structured cases the proptest generators produce, and judged by the same
//! oracles. Used by /verif/fuzz/fuzz_targets/*.rs and by `kv fuzz-replay`.
use crate::common::*;
use arbitrary::Unstructured;
use std::path::PathBuf;
use std::sync::OnceLock;

static ROOT: OnceLock<PathBuf> = OnceLock::new();

/// One scratch world per fuzzing process, created after dropping privileges; reset by every judge.
pub fn root() -> &'static PathBuf {
    ROOT.get_or_init(|| {
        quiet_panics();
        drop_privileges();
        let s = Scratch::new("fuzz");
        let p = s.path.clone();
        std::env::set_var("TMPDIR", p.join("TMP"));
        std::mem::forget(s);
        p
    })
}

pub fn planner(data: &[u8]) -> Option<(Vec<(u64, bool)>, usize)> {
    let mut u = Unstructured::new(data);
    let capsel: u8 = u.arbitrary().ok()?;
    let wide: bool = u.arbitrary().ok()?;
    let mut entries = Vec::new();
    while !u.is_empty() && entries.len() < 4096 {
        let b: u8 = u.arbitrary().ok()?;
        let rank = if wide { u.arbitrary::<u64>().ok()? } else { (b >> 1) as u64 % 6 };
        entries.push((rank, b & 1 == 1));
    }
    let n = entries.len();
    let cap = match capsel % 8 {
        0 => 0,
        1 => 1,
        2 => n.saturating_sub(1),
        3 => n,
        4 => n + 1,
        5 => usize::MAX,
        6 => n / 2,
        _ => (capsel as usize) % (n + 2),
    };
    Some((entries, cap))
}

pub fn run_planner(data: &[u8]) -> Result<(), String> {
    match planner(data) {
        Some((e, c)) => crate::c08::judge(&e, c).map_err(|(s, d)| format!("{}: {}", s, d)),
        None => Ok(()),
    }
}

pub fn shards(data: &[u8]) -> Option<crate::c12::Case> {
    let mut u = Unstructured::new(data);
    let hash: u64 = u.arbitrary().ok()?;
    let sec: u64 = u.arbitrary().ok()?;
    let n: u32 = u.arbitrary().ok()?;
    let kind: u8 = u.arbitrary().ok()?;
    let n = match n % 4 {
        0 => (n >> 2) as usize % 70,
        1 => [127usize, 128, 255, 256, 257, 4096, 65535, 65536, 65537][(n >> 2) as usize % 9],
        _ => (n >> 2) as usize % 70_000,
    };
    Some(crate::c12::Case { hash, sec, n, kind: kind % 4, label: "fuzz" })
}

pub fn run_shards(data: &[u8]) -> Result<(), String> {
    match shards(data) {
        Some(c) => crate::c12::judge(root(), &c).map_err(|(s, d)| format!("{}: {}", s, d)),
        None => Ok(()),
    }
}

pub fn names(data: &[u8]) -> Option<crate::c16::Case> {
    use crate::fe::OpKind::*;
    if data.len() < 3 {
        return None;
    }
    let ops = [Get, Touch, Set, Put, SetTemp, PutTemp, Ensure, GouAccept, GouPromote, GouReplace];
    let op = ops[data[0] as usize % ops.len()];
    let mut fe = data[1] % 7;
    let small = data[1] & 0x80 != 0;
    if (fe == 0 || fe == 1) && !op.is_plain_api() {
        fe = 2 + fe % 2;
    }
    if fe == 6 && !op.is_plain_api() {
        fe = 3;
    }
    if fe == 5 && !matches!(op, Get | Touch) {
        fe = 4;
    }
    let name = String::from_utf8_lossy(&data[2..]).into_owned();
    if name.len() > 600 {
        return None;
    }
    Some(crate::c16::Case { name, op, fe, small_capacity: small })
}

pub fn run_names(data: &[u8]) -> Result<(), String> {
    match names(data) {
        Some(c) => crate::c16::judge(root(), &c).map_err(|(s, d)| format!("{}: {}", s, d)),
        None => Ok(()),
    }
}

pub fn dir(data: &[u8]) -> Option<crate::c07::Case> {
    let mut u = Unstructured::new(data);
    let route: u8 = u.arbitrary().ok()?;
    let capsel: u8 = u.arbitrary().ok()?;
    let subdirs: u8 = u.arbitrary().ok()?;
    let own: u8 = u.arbitrary().ok()?;
    let mut files = Vec::new();
    while !u.is_empty() && files.len() < 14 {
        let b: u8 = u.arbitrary().ok()?;
        files.push((b % 9, (b >> 4) % 3));
    }
    let n = files.len();
    Some(crate::c07::Case { files, subdirs: subdirs % 3, capacity: (capsel as usize % 16 * (n + 2)) >> 4, route: route % 6, own_existing: if own & 1 == 1 && n > 0 { Some((own >> 1) % n as u8) } else { None }, symlink: subdirs & 0x80 != 0 })
}

pub fn run_dir(data: &[u8]) -> Result<(), String> {
    match dir(data) {
        Some(c) => crate::c07::judge(root(), &c).map(|_| ()).map_err(|(s, d)| format!("{}: {}", s, d)),
        None => Ok(()),
    }
}

pub fn history(data: &[u8]) -> Option<crate::c11::Hist> {
    let mut u = Unstructured::new(data);
    let fe: u8 = u.arbitrary().ok()?;
    let shards: u8 = u.arbitrary().ok()?;
    let cap_sel: u8 = u.arbitrary().ok()?;
    let flags: u8 = u.arbitrary().ok()?;
    let nkeys = 3 + (flags >> 4) as usize % 4;
    let mut keys = Vec::new();
    for _ in 0..nkeys {
        let b: u8 = u.arbitrary().ok()?;
        keys.push((b % 8, (b >> 4) % 8));
    }
    let mut steps = Vec::new();
    while !u.is_empty() && steps.len() < 200 {
        let a: u8 = u.arbitrary().ok()?;
        let b: u8 = u.arbitrary().unwrap_or(0);
        steps.push(crate::c11::Step { handle: a % 3, op: (a >> 2) % 10, key: b % 7, fire: b & 0x80 != 0, shard_draw: (b >> 3) % 8, linked: a == 0xff });
    }
    if steps.is_empty() {
        return None;
    }
    Some(crate::c11::Hist { fe: fe % 4, shards: 2 + shards % 7, cap_sel: cap_sel % 7, reader: flags & 1 == 1, handles: 1 + (flags >> 1) % 3, keys, steps })
}

pub fn run_history(data: &[u8]) -> Result<(), String> {
    match history(data) {
        Some(h) => crate::c11::judge(root(), &h).map(|_| ()).map_err(|(s, d)| format!("{}: {}", s, d)),
        None => Ok(()),
    }
}

/// bytes -> (layout, programs, random-walk schedule): coverage-guided schedule exploration
pub fn conc(data: &[u8], stacked_ops: bool) -> Option<crate::sched::ConcCase> {
    use crate::sched::*;
    let mut u = Unstructured::new(data);
    let b0: u8 = u.arbitrary().ok()?;
    let b1: u8 = u.arbitrary().ok()?;
    let b2: u8 = u.arbitrary().ok()?;
    let kind = b0 % 4;
    let shards = 2 + (b0 >> 2) % 2;
    let cap = (b0 >> 4) as usize % 4;
    let layout = Layout {
        kind,
        shards,
        capacity: if kind % 2 == 1 { cap.max(1) * shards as usize } else { cap },
        shared_handle: b1 & 1 == 1,
        preload_writer: (0..3).filter(|k| b1 & (2 << k) != 0).collect(),
        preload_reader: if kind >= 2 { (0..3).filter(|k| b1 & (16 << k) != 0).collect() } else { vec![] },
        dirs_missing: b1 & 0x80 != 0,
        checker: false,
        no_hard_links: false,
        stale_debris: b2 & 0x40 != 0,
    };
    let nprog = 2 + (b2 % 2) as usize;
    let mut kinds = vec![PKind::Set, PKind::Put, PKind::Get, PKind::Touch, PKind::Ensure, PKind::Maintain, PKind::Get, PKind::RoGet];
    if stacked_ops && kind >= 2 {
        kinds.extend([PKind::Promote, PKind::Replace]);
    }
    let mut progs = Vec::new();
    for _ in 0..nprog {
        let len = 1 + (u.arbitrary::<u8>().ok()? % 3) as usize;
        let mut p = Vec::new();
        for _ in 0..len {
            let a: u8 = u.arbitrary().ok()?;
            let b: u8 = u.arbitrary().ok()?;
            p.push(POp { kind: kinds[a as usize % kinds.len()], key: b % 2, size: (b >> 2) % 4, hold: b & 0x80 != 0 });
        }
        progs.push(p);
    }
    if b2 & 0x80 != 0 {
        progs.push(vec![POp { kind: PKind::Adversary, key: b2 >> 3, size: b2 & 7, hold: false }]);
    }
    let walk: Vec<u8> = u.take_rest().iter().map(|x| x % 4).collect();
    Some(ConcCase { layout, progs, strategy: Sched::Walk(walk) })
}

pub fn run_conc_err(data: &[u8]) -> Result<(), String> {
    use crate::sched::*;
    match conc(data, true) {
        Some(c) => {
            let root = root();
            prepare(root, &c.layout);
            let ex = run_conc(root, &c.layout, &c.progs, &c.strategy, RunOpts::default());
            clean(root);
            crate::c05::judge_exec(&ex).map(|_| ()).map_err(|(s, d)| format!("{}: {}", s, d))
        }
        None => Ok(()),
    }
}

pub fn run_conc_content(data: &[u8]) -> Result<(), String> {
    use crate::sched::*;
    match conc(data, true) {
        Some(mut c) => {
            // no adversary for the content property
            c.progs.retain(|p| p.iter().all(|o| o.kind != PKind::Adversary));
            let root = root();
            prepare(root, &c.layout);
            let ex = run_conc(root, &c.layout, &c.progs, &c.strategy, RunOpts { yield_data: true, monitor: true, budget: 0 });
            clean(root);
            crate::c01::judge_exec(&c.layout, &c.progs, &ex).map(|_| ()).map_err(|(s, d)| format!("{}: {}", s, d))
        }
        None => Ok(()),
    }
}

pub fn run_target(target: &str, data: &[u8]) -> Result<(), String> {
    match target {
        "fuzz_planner" => run_planner(data),
        "fuzz_shards" => run_shards(data),
        "fuzz_names" => run_names(data),
        "fuzz_dir" => run_dir(data),
        "fuzz_history" => run_history(data),
        "fuzz_conc_err" => run_conc_err(data),
        "fuzz_conc_content" => run_conc_content(data),
        _ => Err(format!("unknown fuzz target {}", target)),
    }
}

/// JSON replay (the common format) of the case a fuzz input decodes to.
pub fn replay_json(target: &str, data: &[u8]) -> Option<serde_json::Value> {
    use serde_json::json;
    match target {
        "fuzz_planner" => planner(data).map(|(e, c)| json!({"check": "C08", "entries": e.iter().map(|(r, a)| json!([r.to_string(), a])).collect::<Vec<_>>(), "capacity": c.to_string()})),
        "fuzz_shards" => shards(data).map(|c| json!({"check": "C12", "hash": c.hash.to_string(), "secondary_hash": c.sec.to_string(), "shards": c.n, "kind": c.kind, "label": c.label})),
        "fuzz_names" => names(data).map(|c| json!({"case": c})),
        "fuzz_dir" => dir(data).map(|c| json!({"case": c})),
        "fuzz_history" => history(data).map(|h| json!({"history": h})),
        "fuzz_conc_err" => conc(data, true).map(|c| json!({"case": c})),
        "fuzz_conc_content" => conc(data, true).map(|mut c| {
            c.progs.retain(|p| p.iter().all(|o| o.kind != crate::sched::PKind::Adversary));
            json!({"case": c})
        }),
        _ => None,
    }
}
