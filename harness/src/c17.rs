//! C17 — maintenance deletes only cache entries and stale temporary files.
use crate::common::*;
use crate::direxplain::{explain, DirState};
use crate::fe::*;
use crate::shim::{World, WorldCfg};
use proptest::prelude::*;
use serde::{Deserialize, Serialize};
use serde_json::json;
use std::path::Path;

const HOUR: i128 = 3_600_000_000_000;
/// offsets of a temp file's mtime relative to (now - 1h): negative = older than the limit
const DELTAS: &[i128] = &[-HOUR, -1_000_000_000, -1, 0, 1, 1_000_000_000, 59 * 60 * 1_000_000_000, 2 * HOUR, 3 * HOUR + 1];

#[derive(Clone, Debug, Serialize, Deserialize)]
pub struct Case {
    pub files: Vec<(u8, u8)>,
    pub capacity: usize,
    pub sharded: bool,
    /// dot-prefixed application files (mtime slot, mark) next to the entries
    pub dotfiles: Vec<(u8, u8)>,
    pub dotdir: bool,
    pub nested: bool,
    /// temp files directly in .kismet_temp: index into DELTAS
    pub temps: Vec<u8>,
    /// a subdirectory of .kismet_temp: (delta index of its own mtime, delta indexes of files inside)
    pub tempdir: Option<(u8, Vec<u8>)>,
    pub put: bool,
}

fn gen_case() -> impl Strategy<Value = Case> {
    (
        prop::collection::vec((0u8..6, 0u8..3), 0..10),
        0u8..16,
        any::<bool>(),
        prop::collection::vec((0u8..6, 0u8..3), 0..3),
        any::<bool>(),
        any::<bool>(),
        prop_oneof![4 => prop::collection::vec(0u8..9, 0..6), 1 => prop::collection::vec(0u8..9, 17..40)],
        prop::option::weighted(0.5, (0u8..9, prop::collection::vec(0u8..9, 0..4))),
        any::<bool>(),
    )
        .prop_map(|(files, capsel, sharded, dotfiles, dotdir, nested, temps, tempdir, put)| {
            let n = files.len();
            Case { files, capacity: (capsel as usize * (n + 2)) >> 4, sharded, dotfiles, dotdir, nested, temps, tempdir, put }
        })
}

fn temp_name(i: usize) -> String {
    format!("tmp{}", i)
}

pub fn judge(root: &Path, c: &Case) -> Result<(bool, bool), (String, String)> {
    let t0 = now_ns();
    let base = t0 - 10 * 86_400_000_000_000;
    let key = KeySpec::new("zz", 0x1234_5678_9abc_def0u64, 0xffff);
    let cap = c.capacity;
    let spec = if c.sharded { DirSpec::Sharded { dir: "cache".into(), shards: 2, cap: 2 * cap.max(1) } } else { DirSpec::Plain { dir: "cache".into(), cap } };
    let eff_cap = spec.dir_capacity();
    let dir = spec.candidate_dirs(root, &key)[0].clone();
    crate::c07::plant(&dir, &c.files, 0, base);
    crate::shim::bypass(|| {
        for (i, (slot, mark)) in c.dotfiles.iter().enumerate() {
            let p = dir.join(format!(".app{}", i));
            plant_file(&p, format!("application data {}", i).as_bytes(), 0o644);
            let m = base + *slot as i128 * 1_000_000_000_000;
            let a = if *mark == 0 { m - 120_000_000_000 } else { m + *mark as i128 - 1 };
            set_times_ns(&p, a, m).unwrap();
        }
        if c.dotfiles.len() >= 2 {
            // an application file whose name is not valid UTF-8 (Latin-1 e-acute)
            use std::os::unix::ffi::OsStrExt;
            let p = dir.join(std::ffi::OsStr::from_bytes(b".caf\xe9.idx"));
            plant_file(&p, b"latin-1 named application data", 0o644);
            set_times_ns(&p, base - 120_000_000_000, base).unwrap();
        }
        if c.dotdir {
            plant_file(&dir.join(".git").join("HEAD"), b"ref", 0o644);
            set_times_ns(&dir.join(".git").join("HEAD"), base, base).unwrap();
        }
        if c.nested {
            plant_file(&dir.join("nested").join("deep").join("file"), b"nested", 0o644);
            set_times_ns(&dir.join("nested").join("deep").join("file"), base, base).unwrap();
        }
        let td = dir.join(".kismet_temp");
        if !c.temps.is_empty() || c.tempdir.is_some() {
            std::fs::create_dir_all(&td).unwrap();
        }
        for (i, d) in c.temps.iter().enumerate() {
            let p = td.join(temp_name(i));
            plant_file(&p, b"temp", 0o600);
            let m = t0 - HOUR + DELTAS[*d as usize];
            set_times_ns(&p, m, m).unwrap();
        }
        if let Some((own, inner)) = &c.tempdir {
            let sd = td.join("scratchdir");
            std::fs::create_dir_all(&sd).unwrap();
            for (i, d) in inner.iter().enumerate() {
                // same names as the top-level temp files on purpose
                let p = sd.join(temp_name(i));
                plant_file(&p, b"inner temp", 0o600);
                let m = t0 - HOUR + DELTAS[*d as usize];
                set_times_ns(&p, m, m).unwrap();
            }
            let m = t0 - HOUR + DELTAS[*own as usize];
            set_times_ns(&sd, m, m).unwrap();
        }
    });
    let before = snapshot(root);
    let world = World::new(WorldCfg { roots: vec![root.to_string_lossy().into_owned()], trace: true, capture_listings: true, vclock: t0, ..Default::default() });
    let op = Op { kind: if c.put { OpKind::Put } else { OpKind::Set }, key: key.clone(), val: Val::new("zz", 7, 7, 17), pop: Pop::Value, nosy: false, link_from: None };
    let (res, ev) = traced(&world, || {
        script_rng(true, 1);
        let h = open_dir(root, &spec);
        exec(root, &h, &op).0
    });
    let after = snapshot(root);
    let cleanup = || crate::shim::bypass(|| {
        let _ = std::fs::remove_dir_all(root.join("cache"));
        let _ = std::fs::remove_dir_all(root.join("staging"));
    });
    let result = (|| -> Result<(bool, bool), (String, String)> {
        match res {
            Ok(r) if !r.is_err() => {}
            Ok(r) => return Err(("c17:op-error".into(), format!("write failed: {}", r.short()))),
            Err(p) => return Err(("c17:panic".into(), p)),
        }
        let dir_rel = dir.strip_prefix(root).unwrap().to_string_lossy().into_owned();
        let dir_s = dir.to_string_lossy().into_owned();
        // 1. directories are never removed
        for (p, e) in &before {
            if e.kind == 'd' && !after.contains_key(p) {
                return Err(("c17:directory-removed".into(), format!("directory {} was removed by maintenance", p)));
            }
        }
        // 2-3. temp files
        let mut boundary = false;
        for (p, e) in &before {
            if e.kind != 'f' {
                continue;
            }
            let Some(rest) = p.strip_prefix(&format!("{}/.kismet_temp/", dir_rel)) else { continue };
            let age = t0 - e.mtime;
            if (age - HOUR).abs() <= 1_000_000_000 {
                boundary = true;
            }
            let exists = after.contains_key(p);
            if age < HOUR && !exists {
                return Err(("c17:young-temp-removed".into(), format!("temporary file {} younger than the limit (age {} ns) was removed", p, age)));
            }
            if age > HOUR && exists && !rest.contains('/') {
                return Err(("c17:stale-temp-kept".into(), format!("temporary file {} older than the limit (age {} ns) survived maintenance of its directory", p, age)));
            }
        }
        // 4-5. dot-prefixed application files and nested content are untouched
        for (p, e) in &before {
            if e.kind != 'f' {
                continue;
            }
            let Some(rest) = p.strip_prefix(&format!("{}/", dir_rel)) else { continue };
            if rest.starts_with(".kismet_temp/") {
                continue;
            }
            if rest.starts_with('.') || rest.contains('/') {
                match after.get(p) {
                    None => return Err(("c17:dotfile-removed".into(), format!("application file {} was removed by maintenance", p))),
                    Some(a) => {
                        if a.hash != e.hash || a.mtime != e.mtime || a.mode != e.mode || a.atime != e.atime {
                            return Err(("c17:dotfile-altered".into(), format!("application file {} was altered by maintenance ({:?} -> {:?})", p, (e.mtime, e.atime, e.mode), (a.mtime, a.atime, a.mode))));
                        }
                    }
                }
            }
        }
        // 6. the key-named population: one explained Second Chance pass, seen at opendir time
        let opens: Vec<&crate::shim::Event> = ev.iter().filter(|e| e.call == "opendir" && e.path == dir_s && e.ok()).collect();
        if opens.len() != 1 {
            return Err(("c17:no-maintenance".into(), format!("expected one listing of {}, saw {}", dir_s, opens.len())));
        }
        let b = DirState::from_listing(opens[0].listing.as_ref().unwrap());
        let a = DirState::from_snap(&after, &dir_rel);
        let ex = explain(&b, &a, eff_cap, Some("zz"), false).map_err(|why| {
            let sig = if why.contains("dot-prefixed") { "c17:dotfile-altered" } else if why.contains("must evict exactly") { "c17:wrong-count" } else { "c17:not-second-chance" };
            (sig.to_string(), why)
        })?;
        // only unlinks of explained victims and of temp files
        for e in ev.iter().filter(|e| (e.call == "unlink" || e.call == "rmdir") && e.ok()) {
            if e.path.starts_with(&format!("{}/", staging(root).to_string_lossy())) {
                continue;
            }
            let rel = e.path.strip_prefix(&format!("{}/", dir_s)).unwrap_or(&e.path);
            let fine = ex.gone.iter().any(|g| g == rel) || (rel.starts_with(".kismet_temp/") && !rel[13..].contains('/'));
            if !fine {
                return Err(("c17:unexpected-delete".into(), format!("maintenance deleted {}", e.path)));
            }
        }
        Ok((ex.evicted_any, boundary || !c.dotfiles.is_empty()))
    })();
    cleanup();
    result
}

pub fn replay(v: &serde_json::Value) -> Result<(), String> {
    let c: Case = serde_json::from_value(v["case"].clone()).map_err(|e| e.to_string())?;
    drop_privileges();
    let scratch = Scratch::new("c17r");
    judge(&scratch.path, &c).map(|_| ()).map_err(|(s, d)| format!("{}: {}", s, d))
}

pub fn run(ctx: &Ctx) -> Report {
    let mut rep = Report::default();
    rep.assumptions.insert(drop_privileges());
    let scratch = Scratch::new("c17");
    let cases = ctx.share(ctx.scale(100_000, 1_500_000)) as u32;
    let rep_cell = std::cell::RefCell::new(&mut rep);
    let found = prop_search(ctx, 17, cases, 1500, &gen_case(), |c, exploring| {
        let r = judge(&scratch.path, c);
        if exploring {
            let mut rep = rep_cell.borrow_mut();
            let nontrivial = matches!(r, Ok((true, true)));
            rep.case(if nontrivial { Some(fnv(format!("{:?}", c).as_bytes())) } else { None });
            rep.label(if c.sharded { "sharded" } else { "plain" });
            if !c.dotfiles.is_empty() {
                rep.label("dot-prefixed application files present");
            }
            if c.temps.iter().any(|d| (2..=4).contains(d)) {
                rep.label("temp file within 1ns of the limit");
            }
            if c.tempdir.is_some() {
                rep.label("subdirectory inside .kismet_temp");
            }
            if c.temps.len() >= 17 {
                rep.label("17+ temp files in one .kismet_temp");
            }
            if c.temps.iter().any(|d| *d >= 7) {
                rep.label("temp file dated in the future (clock skew)");
            }
            if let Ok((true, _)) = r {
                rep.label("evicted");
            }
            if nontrivial && rep.samples.len() < 3 {
                let s = json!({"case": c});
                rep.sample(s);
            }
        }
        r.map(|_| ()).map_err(|(s, d)| format!("{}|{}", s, d))
    });
    drop(rep_cell);
    if let Some((msg, c)) = found {
        let (sig, detail) = msg.split_once('|').map(|(a, b)| (a.to_string(), b.to_string())).unwrap_or(("c17".into(), msg.clone()));
        rep.violation(&sig, detail, json!({"case": c}));
    }
    rep
}
