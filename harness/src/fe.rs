//! Front-ends: one operation language over plain, sharded, stacked and read-only handles.
use crate::common::*;
use kismet_cache::{plain, sharded, Cache, CacheBuilder, CacheHit, CacheHitAction, Key, ReadOnlyCache, ReadOnlyCacheBuilder};
use serde::{Deserialize, Serialize};
use std::io::{Seek, SeekFrom};
use std::path::{Path, PathBuf};
use std::sync::{Arc, Mutex};

#[derive(Clone, Debug, PartialEq, Eq, Hash, Serialize, Deserialize)]
pub struct KeySpec {
    pub name: String,
    pub hash: u64,
    pub sec: u64,
}

impl KeySpec {
    pub fn new(name: &str, hash: u64, sec: u64) -> KeySpec {
        KeySpec { name: name.to_string(), hash, sec }
    }
    pub fn key(&self) -> Key<'_> {
        Key::new(&self.name, self.hash, self.sec)
    }
}

#[derive(Clone, Debug, PartialEq, Eq, Hash, Serialize, Deserialize)]
pub enum DirSpec {
    Plain { dir: String, cap: usize },
    Sharded { dir: String, shards: usize, cap: usize },
}

impl DirSpec {
    pub fn dir(&self) -> &str {
        match self {
            DirSpec::Plain { dir, .. } | DirSpec::Sharded { dir, .. } => dir,
        }
    }
    pub fn is_sharded(&self) -> bool {
        matches!(self, DirSpec::Sharded { .. })
    }
    /// directory in which `key` would be stored: for sharded, (primary dir, secondary dir)
    pub fn candidate_dirs(&self, root: &Path, key: &KeySpec) -> Vec<PathBuf> {
        match self {
            DirSpec::Plain { dir, .. } => vec![root.join(dir)],
            DirSpec::Sharded { dir, shards, .. } => {
                let (a, b) = crate::shardoracle::shards(key.hash, key.sec, *shards);
                vec![root.join(dir).join(crate::shardoracle::dir_name(a)), root.join(dir).join(crate::shardoracle::dir_name(b))]
            }
        }
    }
    /// per-directory capacity used by maintenance of one (shard) directory
    pub fn dir_capacity(&self) -> usize {
        match self {
            DirSpec::Plain { cap, .. } => *cap,
            DirSpec::Sharded { shards, cap, .. } => {
                let n = (*shards).max(2);
                let total = (*cap).max(n);
                total / n + (total % n != 0) as usize
            }
        }
    }
}

#[derive(Clone, Copy, Debug, PartialEq, Eq, Hash, Serialize, Deserialize)]
pub enum Checker {
    None,
    ByteEq,
    Panicking,
    Recording,
    /// byte equality, but a mismatch is reported with an error of kind NotFound
    ByteEqNotFound,
}

#[derive(Clone, Debug, PartialEq, Eq, Hash, Serialize, Deserialize)]
pub struct StackSpec {
    pub writer: Option<DirSpec>,
    pub readers: Vec<DirSpec>,
    pub checker: Checker,
    pub auto_sync: bool,
}

pub type CheckLog = Arc<Mutex<Vec<(Vec<u8>, Vec<u8>)>>>;

pub enum Handle {
    Plain(plain::Cache),
    Sharded(sharded::Cache),
    Stack(Cache, CheckLog),
    Ro(ReadOnlyCache, CheckLog),
}

pub fn open_dir(root: &Path, d: &DirSpec) -> Handle {
    match d {
        DirSpec::Plain { dir, cap } => Handle::Plain(plain::Cache::new(root.join(dir), *cap)),
        DirSpec::Sharded { dir, shards, cap } => Handle::Sharded(sharded::Cache::new(root.join(dir), *shards, *cap)),
    }
}

fn recording_checker(log: CheckLog) -> impl Fn(&mut std::fs::File, &mut std::fs::File) -> std::io::Result<()> + Send + Sync + std::panic::RefUnwindSafe + std::panic::UnwindSafe + 'static {
    move |a, b| {
        let x = read_all(a)?;
        let y = read_all(b)?;
        let eq = x == y;
        if let Ok(mut l) = log.lock() {
            l.push((x, y));
        }
        if eq {
            Ok(())
        } else {
            Err(std::io::Error::new(std::io::ErrorKind::Other, "mismatch (recording checker)"))
        }
    }
}

fn notfound_checker(a: &mut std::fs::File, b: &mut std::fs::File) -> std::io::Result<()> {
    let x = read_all(a)?;
    let y = read_all(b)?;
    if x == y {
        Ok(())
    } else {
        Err(std::io::Error::new(std::io::ErrorKind::NotFound, "copies differ (reported as NotFound)"))
    }
}

thread_local! {
    /// 0 = fresh CacheBuilder::new(); 1 = a builder that was already used once (`take()` resets it);
    /// 2 = CacheBuilder::default(). In modes 1 and 2 auto_sync is left at its default (true) unless the spec disables it.
    static BUILDER_MODE: std::cell::Cell<u8> = const { std::cell::Cell::new(0) };
}

pub fn set_builder_mode(m: u8) {
    BUILDER_MODE.with(|b| b.set(m));
}

pub fn open_stack(root: &Path, s: &StackSpec) -> Handle {
    let log: CheckLog = Arc::new(Mutex::new(Vec::new()));
    let mode = BUILDER_MODE.with(|b| b.get());
    let mut b = if mode == 2 { CacheBuilder::default() } else { CacheBuilder::new() };
    if mode == 1 {
        // first use of the builder: some unrelated cache; `take()` leaves the builder reset
        let _unrelated = b.plain_reader(root.join("unrelated-reader")).take().build();
    }
    // The public builder offers several routes to the same configuration (`writer(path, n, cap)`
    // picks plain for n <= 1, `reader(path, n)` likewise, `plain_readers([..])` adds several at
    // once); which route is taken is a deterministic function of the specification, so that the
    // enumerations cover all of them.
    let route = hash_str(&format!("{:?}", s)) % 3;
    if s.writer.is_none() && s.readers.is_empty() && s.checker == Checker::None && s.auto_sync && mode == 0 && route == 0 {
        return Handle::Stack(Cache::default(), log);
    }
    match &s.writer {
        Some(DirSpec::Plain { dir, cap }) => {
            if route == 1 {
                b.writer(root.join(dir), (hash_str(&format!("{:?}", s)) / 3 % 2) as usize, *cap);
            } else {
                b.plain_writer(root.join(dir), *cap);
            }
        }
        Some(DirSpec::Sharded { dir, shards, cap }) => {
            if route == 1 && *shards >= 2 {
                b.writer(root.join(dir), *shards, *cap);
            } else {
                b.sharded_writer(root.join(dir), *shards, *cap);
            }
        }
        None => {}
    }
    if route == 2 && !s.readers.is_empty() && s.readers.iter().all(|r| !r.is_sharded()) {
        b.plain_readers(s.readers.iter().map(|r| root.join(r.dir())));
    } else {
        for r in &s.readers {
            match r {
                DirSpec::Plain { dir, .. } => {
                    if route == 1 {
                        b.reader(root.join(dir), (hash_str(&format!("{:?}{}", s, dir)) / 3 % 2) as usize);
                    } else {
                        b.plain_reader(root.join(dir));
                    }
                }
                DirSpec::Sharded { dir, shards, .. } => {
                    if route == 1 && *shards >= 2 {
                        b.reader(root.join(dir), *shards);
                    } else {
                        b.sharded_reader(root.join(dir), *shards);
                    }
                }
            }
        }
    }
    if route == 2 && s.checker == Checker::None {
        // setting and clearing a checker must leave none configured
        b.byte_equality_checker();
        b.clear_consistency_checker();
    }
    match s.checker {
        Checker::None => {}
        Checker::ByteEq => {
            if route == 1 {
                b.arc_consistency_checker(Some(Arc::new(kismet_cache::byte_equality_checker)));
            } else {
                b.byte_equality_checker();
            }
        }
        Checker::Panicking => {
            b.panicking_byte_equality_checker();
        }
        Checker::Recording => {
            b.consistency_checker(recording_checker(log.clone()));
        }
        Checker::ByteEqNotFound => {
            b.consistency_checker(notfound_checker);
        }
    }
    if mode == 0 || !s.auto_sync {
        b.auto_sync(s.auto_sync);
    }
    Handle::Stack(b.take().build(), log)
}

pub fn open_readonly(root: &Path, readers: &[DirSpec], checker: Checker) -> Handle {
    let log: CheckLog = Arc::new(Mutex::new(Vec::new()));
    let mut b = ReadOnlyCacheBuilder::new();
    let route = hash_str(&format!("{:?}{:?}", readers, checker)) % 3;
    if readers.is_empty() && checker == Checker::None && route == 0 {
        return Handle::Ro(ReadOnlyCache::default(), log);
    }
    if route == 2 && !readers.is_empty() && readers.iter().all(|r| !r.is_sharded()) {
        b.plain_caches(readers.iter().map(|r| root.join(r.dir())));
    } else {
        for r in readers {
            match r {
                DirSpec::Plain { dir, .. } => {
                    if route == 1 {
                        b.cache(root.join(dir), (hash_str(&format!("{:?}{}", readers, dir)) / 3 % 2) as usize);
                    } else {
                        b.plain(root.join(dir));
                    }
                }
                DirSpec::Sharded { dir, shards, .. } => {
                    if route == 1 && *shards >= 2 {
                        b.cache(root.join(dir), *shards);
                    } else {
                        b.sharded(root.join(dir), *shards);
                    }
                }
            }
        }
    }
    if route == 2 && checker == Checker::None {
        b.byte_equality_checker();
        b.clear_consistency_checker();
    }
    match checker {
        Checker::None => {}
        Checker::ByteEq => {
            if route == 1 {
                b.arc_consistency_checker(Some(Arc::new(kismet_cache::byte_equality_checker)));
            } else {
                b.byte_equality_checker();
            }
        }
        Checker::Panicking => {
            b.panicking_byte_equality_checker();
        }
        Checker::Recording => {
            b.consistency_checker(recording_checker(log.clone()));
        }
        Checker::ByteEqNotFound => {
            b.consistency_checker(notfound_checker);
        }
    }
    Handle::Ro(b.take().build(), log)
}

#[derive(Clone, Copy, Debug, PartialEq, Eq, Hash, Serialize, Deserialize)]
pub enum OpKind {
    Get,
    Touch,
    Set,
    Put,
    SetTemp,
    PutTemp,
    Ensure,
    GouAccept,
    GouPromote,
    GouReplace,
}

impl OpKind {
    pub fn is_lookup(self) -> bool {
        matches!(self, OpKind::Get | OpKind::Ensure | OpKind::GouAccept | OpKind::GouPromote | OpKind::GouReplace)
    }
    pub fn is_plain_api(self) -> bool {
        matches!(self, OpKind::Get | OpKind::Touch | OpKind::Set | OpKind::Put)
    }
    pub fn writes(self) -> bool {
        !matches!(self, OpKind::Get | OpKind::Touch)
    }
}

#[derive(Clone, Copy, Debug, PartialEq, Eq, Hash, Serialize, Deserialize)]
pub enum Pop {
    Value,
    NotFound,
    Error,
}

#[derive(Clone, Debug, PartialEq, Eq, Hash, Serialize, Deserialize)]
pub struct Op {
    pub kind: OpKind,
    pub key: KeySpec,
    /// value written (set/put), or produced by populate
    pub val: Val,
    pub pop: Pop,
    /// judge / populate read their file arguments to EOF before deciding
    pub nosy: bool,
    /// set/put: instead of a fresh file, the source is a new hard link to this existing file
    #[serde(default)]
    pub link_from: Option<String>,
}

thread_local! {
    /// mode the application gives its NamedTempFile before set_temp_file/put_temp_file (0 = leave the default 0600)
    static TEMP_MODE: std::cell::Cell<u32> = const { std::cell::Cell::new(0) };
}

pub fn set_temp_mode(m: u32) {
    TEMP_MODE.with(|t| t.set(m));
}

#[derive(Clone, Debug, PartialEq, Eq, Serialize, Deserialize)]
pub struct ErrInfo {
    pub kind: String,
    pub os: Option<i32>,
    pub msg: String,
}

impl From<std::io::Error> for ErrInfo {
    fn from(e: std::io::Error) -> ErrInfo {
        ErrInfo { kind: format!("{:?}", e.kind()), os: e.raw_os_error(), msg: e.to_string() }
    }
}

/// What a returned file handle looked like.
#[derive(Clone, Debug, PartialEq, Eq, Serialize, Deserialize)]
pub struct Got {
    pub val: Result<Val, String>,
    pub raw_len: usize,
    pub accmode: i32,
    pub offset: i64,
    pub ino: u64,
}

#[derive(Clone, Debug, PartialEq, Eq, Serialize, Deserialize)]
pub enum Ret {
    Unit,
    Bool(bool),
    Miss,
    File(Got),
    Err(ErrInfo),
    Panic(String),
}

impl Ret {
    pub fn is_err(&self) -> bool {
        matches!(self, Ret::Err(_) | Ret::Panic(_))
    }
    pub fn val(&self) -> Option<&Val> {
        match self {
            Ret::File(g) => g.val.as_ref().ok(),
            _ => None,
        }
    }
    pub fn short(&self) -> String {
        match self {
            Ret::Unit => "Ok(())".into(),
            Ret::Bool(b) => format!("Ok({})", b),
            Ret::Miss => "Ok(None)".into(),
            Ret::File(g) => match &g.val {
                Ok(v) => format!("Ok(file {})", v.header()),
                Err(e) => format!("Ok(file BAD: {})", e),
            },
            Ret::Err(e) => format!("Err({} {:?} {})", e.kind, e.os, e.msg),
            Ret::Panic(m) => format!("PANIC({})", m),
        }
    }
}

#[derive(Clone, Debug, Default, Serialize, Deserialize)]
pub struct Side {
    /// "primary"/"secondary" if the judge was consulted
    pub judged: Option<String>,
    /// what the judge saw when it read its argument
    pub judge_saw: Option<Result<Val, String>>,
    pub populate_called: bool,
    /// what populate received as the old file (Replace)
    pub populate_old: Option<Result<Val, String>>,
}

thread_local! {
    static NO_READ: std::cell::Cell<bool> = const { std::cell::Cell::new(false) };
}

/// When set, handles returned by lookups are inspected (mode, offset) but not read.
pub fn set_no_read(b: bool) {
    NO_READ.with(|n| n.set(b));
}

pub fn inspect(mut f: std::fs::File) -> Got {
    use std::os::unix::io::AsRawFd;
    let fd = f.as_raw_fd();
    let (accmode, offset, ino) = crate::shim::bypass(|| unsafe {
        let fl = libc::fcntl(fd, libc::F_GETFL);
        let off = libc::lseek(fd, 0, libc::SEEK_CUR);
        let mut st: libc::stat = std::mem::zeroed();
        libc::fstat(fd, &mut st);
        (fl & libc::O_ACCMODE, off, st.st_ino)
    });
    if NO_READ.with(|n| n.get()) {
        crate::shim::app_phase(|| drop(f));
        return Got { val: Err("handle not read".into()), raw_len: 0, accmode, offset, ino };
    }
    // reading the handle (and dropping it) is the application's doing, not the library's
    crate::shim::app_phase(|| {
        let bytes = read_all(&mut f).unwrap_or_default();
        drop(f);
        Got { val: Val::decode(&bytes), raw_len: bytes.len(), accmode, offset, ino }
    })
}

fn peek(f: &mut std::fs::File) -> Result<Val, String> {
    let b = crate::shim::app_phase(|| read_all(f)).map_err(|e| e.to_string())?;
    Val::decode(&b)
}

fn lookup_ret(r: std::io::Result<Option<std::fs::File>>) -> Ret {
    match r {
        Ok(Some(f)) => Ret::File(inspect(f)),
        Ok(None) => Ret::Miss,
        Err(e) => Ret::Err(e.into()),
    }
}
fn unit_ret(r: std::io::Result<()>) -> Ret {
    match r {
        Ok(()) => Ret::Unit,
        Err(e) => Ret::Err(e.into()),
    }
}
fn bool_ret(r: std::io::Result<bool>) -> Ret {
    match r {
        Ok(b) => Ret::Bool(b),
        Err(e) => Ret::Err(e.into()),
    }
}

/// Directory where sources for set/put are staged (outside every cache directory).
pub fn staging(root: &Path) -> PathBuf {
    root.join("staging")
}

/// Executes one operation. Source files are prepared with the shim bypassed (application work);
/// everything the library does is visible to the shim. Panics are caught.
pub fn exec(root: &Path, h: &Handle, op: &Op) -> (Ret, Side) {
    let side = Arc::new(Mutex::new(Side::default()));
    let side2 = side.clone();
    let r = std::panic::catch_unwind(std::panic::AssertUnwindSafe(|| exec_inner(root, h, op, &side2)));
    let ret = match r {
        Ok(ret) => ret,
        Err(p) => Ret::Panic(if let Some(s) = p.downcast_ref::<String>() {
            s.clone()
        } else if let Some(s) = p.downcast_ref::<&str>() {
            s.to_string()
        } else {
            "panic".into()
        }),
    };
    let s = side.lock().map(|s| s.clone()).unwrap_or_default();
    (ret, s)
}

fn exec_inner(root: &Path, h: &Handle, op: &Op, side: &Arc<Mutex<Side>>) -> Ret {
    let key = op.key.key();
    let data = op.val.encode();
    let src = |tag: &str| match &op.link_from {
        Some(existing) => crate::shim::bypass(|| {
            std::fs::create_dir_all(staging(root)).unwrap();
            let p = staging(root).join(format!("src-link-{}", tag));
            let _ = std::fs::remove_file(&p);
            std::fs::hard_link(existing, &p).expect("hard link source");
            p
        }),
        None => make_source(&staging(root), tag, &data),
    };
    match (h, op.kind) {
        (Handle::Plain(c), OpKind::Get) => lookup_ret(c.get(&op.key.name)),
        (Handle::Plain(c), OpKind::Touch) => bool_ret(c.touch(&op.key.name)),
        (Handle::Plain(c), OpKind::Set) => unit_ret(c.set(&op.key.name, &src("ps"))),
        (Handle::Plain(c), OpKind::Put) => unit_ret(c.put(&op.key.name, &src("pp"))),
        (Handle::Sharded(c), OpKind::Get) => lookup_ret(c.get(key)),
        (Handle::Sharded(c), OpKind::Touch) => bool_ret(c.touch(key)),
        (Handle::Sharded(c), OpKind::Set) => unit_ret(c.set(key, &src("ss"))),
        (Handle::Sharded(c), OpKind::Put) => unit_ret(c.put(key, &src("sp"))),
        (Handle::Ro(c, _), OpKind::Get) => lookup_ret(c.get(key)),
        (Handle::Ro(c, _), OpKind::Touch) => bool_ret(c.touch(key)),
        (Handle::Stack(c, _), OpKind::Get) => lookup_ret(c.get(key)),
        (Handle::Stack(c, _), OpKind::Touch) => bool_ret(c.touch(key)),
        (Handle::Stack(c, _), OpKind::Set) => unit_ret(c.set(key, src("cs"))),
        (Handle::Stack(c, _), OpKind::Put) => unit_ret(c.put(key, src("cp"))),
        (Handle::Stack(c, _), OpKind::SetTemp) | (Handle::Stack(c, _), OpKind::PutTemp) => {
            // the application creates its NamedTempFile in the staging area (same filesystem)
            let tmp = crate::shim::bypass(|| {
                std::fs::create_dir_all(staging(root)).unwrap();
                let mut t = tempfile::NamedTempFile::new_in(staging(root)).unwrap();
                write_chunked(t.as_file_mut(), &data).unwrap();
                let m = TEMP_MODE.with(|x| x.get());
                if m != 0 {
                    use std::os::unix::fs::PermissionsExt;
                    t.as_file().set_permissions(std::fs::Permissions::from_mode(m)).unwrap();
                }
                t
            });
            // make the descriptor visible to the shim's table (it was opened while bypassed)
            crate::shim::adopt_fd(std::os::unix::io::AsRawFd::as_raw_fd(tmp.as_file()), tmp.path());
            if op.kind == OpKind::SetTemp {
                unit_ret(c.set_temp_file(key, tmp))
            } else {
                unit_ret(c.put_temp_file(key, tmp))
            }
        }
        (Handle::Stack(c, _), k) => {
            let nosy = op.nosy;
            let pop = op.pop;
            let side_j = side.clone();
            let side_p = side.clone();
            let judge = move |hit: CacheHit| -> CacheHitAction {
                let (which, f) = match hit {
                    CacheHit::Primary(f) => ("primary", f),
                    CacheHit::Secondary(f) => ("secondary", f),
                };
                let saw = if nosy { Some(peek(f)) } else { None };
                if let Ok(mut s) = side_j.lock() {
                    s.judged = Some(which.to_string());
                    s.judge_saw = saw;
                }
                match k {
                    OpKind::GouAccept => CacheHitAction::Accept,
                    OpKind::GouReplace => CacheHitAction::Replace,
                    _ => CacheHitAction::Promote,
                }
            };
            let populate = move |dst: &mut std::fs::File, old: Option<std::fs::File>| -> std::io::Result<()> {
                let old_seen = old.map(|mut f| {
                    if nosy {
                        let _ = f.seek(SeekFrom::Start(0));
                    }
                    peek(&mut f)
                });
                if let Ok(mut s) = side_p.lock() {
                    s.populate_called = true;
                    s.populate_old = old_seen;
                }
                match pop {
                    Pop::Value => write_chunked(dst, &data),
                    Pop::NotFound => Err(std::io::Error::new(std::io::ErrorKind::NotFound, "populate: not found")),
                    Pop::Error => Err(std::io::Error::new(std::io::ErrorKind::Other, "populate: failed")),
                }
            };
            let r = if k == OpKind::Ensure { c.ensure(key, |dst| populate(dst, None)) } else { c.get_or_update(key, judge, populate) };
            match r {
                Ok(f) => Ret::File(inspect(f)),
                Err(e) => Ret::Err(e.into()),
            }
        }
        (_, k) => Ret::Err(ErrInfo { kind: "HarnessUnsupported".into(), os: None, msg: format!("{:?} not available on this handle", k) }),
    }
}

/// Scripts the calling thread's randomness: `fire` = maintenance triggers on every event,
/// otherwise never (valid for periods >= 3 within one operation).
pub fn script_rng(fire: bool, shard_draw: u64) {
    use kismet_cache::verif_hooks as vh;
    if fire {
        vh::script_trigger(std::iter::empty(), Some(1));
        vh::set_trigger_countdown(1);
    } else {
        vh::script_trigger(std::iter::empty(), Some(u64::MAX));
        vh::set_trigger_countdown(u64::MAX);
    }
    vh::script_shards(std::iter::empty(), Some(shard_draw));
}

impl Handle {
    /// A clone sharing in-memory state with `self` (threads of one process sharing a handle).
    pub fn share(&self) -> Handle {
        match self {
            Handle::Plain(c) => Handle::Plain(c.clone()),
            Handle::Sharded(c) => Handle::Sharded(c.clone()),
            Handle::Stack(c, l) => Handle::Stack(c.clone(), l.clone()),
            Handle::Ro(c, l) => Handle::Ro(c.clone(), l.clone()),
        }
    }

    /// A lookup that hands back the raw file (not read, not inspected).
    pub fn lookup_file(&self, key: &KeySpec) -> std::io::Result<Option<std::fs::File>> {
        match self {
            Handle::Plain(c) => c.get(&key.name),
            Handle::Sharded(c) => c.get(key.key()),
            Handle::Stack(c, _) => c.get(key.key()),
            Handle::Ro(c, _) => c.get(key.key()),
        }
    }
}
