//! C02 — a process crash at any point leaves every cache directory valid and usable.
use crate::common::*;
use crate::opstate::*;
use crate::shim::Fault;
use serde::{Deserialize, Serialize};
use serde_json::json;
use std::path::Path;

#[derive(Clone, Debug, Serialize, Deserialize)]
pub struct Case {
    pub os: OsCase,
    /// the process dies immediately before filesystem call number k of the operation
    pub k: u32,
}

fn tree_sig(root: &Path) -> u64 {
    let snap = snapshot(root);
    let mut parts: Vec<String> = Vec::new();
    for (p, e) in &snap {
        // temp and staging names are random: keep only their place
        let norm = if let Some(i) = p.find(".kismet_temp/") { format!("{}.kismet_temp/T", &p[..i]) } else if p.starts_with("staging/") { "staging/S".to_string() } else { p.clone() };
        parts.push(format!("{}|{}|{}|{:o}|{}|{:?}", norm, e.kind, e.size, e.mode, e.nlink, e.val.as_ref().map(|v| v.header())));
    }
    parts.sort();
    fnv(parts.join("\n").as_bytes())
}

/// Fault-free run in a forked child too (so that pre/post signatures are comparable); returns
/// (number of calls, signature before, signature after) or None if the operation fails by contract.
pub fn reference(root: &Path, os: &OsCase) -> Option<(u32, u64, u64)> {
    let b = build(root, os);
    let pre = tree_sig(root);
    let world = trace_world(&[root]);
    let (r, ev) = traced(&world, || run_op(root, &b));
    let post = tree_sig(root);
    clean(root);
    match r {
        Ok(ret) if !ret.is_err() => Some((ev.iter().filter(|e| e.op == 0 && e.idx != u32::MAX).count() as u32, pre, post)),
        _ => None,
    }
}

/// Returns Ok(intermediate_state?) — whether the crash left a state different from both the
/// pre-state and the completed post-state.
pub fn judge(root: &Path, c: &Case, pre_post: Option<(u64, u64)>) -> Result<bool, (String, String)> {
    let b = build(root, &c.os);
    let world = trace_world(&[root]);
    // the child really dies: _exit inside the interposer, no destructors, descriptors closed by the kernel
    let pid = unsafe { libc::fork() };
    if pid < 0 {
        clean(root);
        return Err(("harness:fork".into(), "fork failed".into()));
    }
    if pid == 0 {
        crate::shim::enter_world(&world, 0);
        crate::shim::set_fault(Fault::Kill(c.k));
        let _ = run_op(root, &b);
        unsafe { libc::_exit(0) };
    }
    let mut status: libc::c_int = 0;
    unsafe { libc::waitpid(pid, &mut status, 0) };
    let code = if libc::WIFEXITED(status) { libc::WEXITSTATUS(status) } else { -1 };
    let what = || format!("{} [{} / {} / fe {}] killed before call #{}", OP_NAMES[c.os.op as usize], PRE_NAMES[c.os.pre as usize], if c.os.fire { "maintenance fires" } else { "no maintenance" }, c.os.fe, c.k);
    let res = (|| -> Result<bool, (String, String)> {
        if code != 99 && code != 0 {
            return Err(("harness:child".into(), format!("{}: child ended with status {}", what(), status)));
        }
        let sig = tree_sig(root);
        let intermediate = pre_post.map(|(a, z)| sig != a && sig != z).unwrap_or(false);
        let mut allowed: Vec<Val> = b.pre_writer.values().cloned().collect();
        allowed.extend(b.pre_reader.values().cloned());
        allowed.push(b.new_val.clone());
        validity(root, &b, &allowed).map_err(|(s, d)| (format!("c02:{}", s), format!("{}: {}", what(), d)))?;
        // debris first (it may still be hard-linked to a published value), then general usability
        debris_lifecycle(root, &b, &mut allowed).map_err(|(s, d)| (format!("c02:{}", s), format!("{}: {}", what(), d)))?;
        validity(root, &b, &allowed).map_err(|(s, d)| (format!("c02:{}", s), format!("{} (after debris cleanup): {}", what(), d)))?;
        usable(root, &b, &mut allowed).map_err(|(s, d)| (format!("c02:{}", s), format!("{}: {}", what(), d)))?;
        validity(root, &b, &allowed).map_err(|(s, d)| (format!("c02:{}", s), format!("{} (after later operations): {}", what(), d)))?;
        Ok(intermediate)
    })();
    clean(root);
    res
}

pub fn replay(v: &serde_json::Value) -> Result<(), String> {
    let c: Case = serde_json::from_value(v["case"].clone()).map_err(|e| e.to_string())?;
    drop_privileges();
    let scratch = Scratch::new("c02r");
    std::env::set_var("TMPDIR", scratch.p("TMP"));
    crate::shim::bypass(|| std::fs::create_dir_all(scratch.p("TMP")).unwrap());
    judge(&scratch.p("w"), &c, None).map(|_| ()).map_err(|(s, d)| format!("{}: {}", s, d))
}

pub fn run(ctx: &Ctx) -> Report {
    let mut rep = Report { exhaustive: true, ..Default::default() };
    rep.assumptions.insert(drop_privileges());
    let scratch = Scratch::new("c02");
    std::env::set_var("TMPDIR", scratch.p("TMP"));
    crate::shim::bypass(|| std::fs::create_dir_all(scratch.p("TMP")).unwrap());
    let root = scratch.p("w");
    crate::shim::bypass(|| std::fs::create_dir_all(&root).unwrap());
    let sizes: Vec<usize> = if ctx.tier == Tier::Thorough { vec![1, 17, 8193, 70_000] } else { vec![17, 8193] };
    for (i, os) in all_cases(&sizes).into_iter().enumerate() {
        if !ctx.mine(i as u64) {
            continue;
        }
        let Some((n, pre, post)) = reference(&root, &os) else {
            rep.label("skipped: fault-free operation fails by contract");
            continue;
        };
        rep.extra_add("operation_state_cases", 1);
        for k in 0..=n {
            let c = Case { os: os.clone(), k };
            let r = judge(&root, &c, Some((pre, post)));
            rep.evaluations += 1;
            if matches!(r, Ok(true)) {
                rep.nontrivial_enum += 1;
            }
            rep.label(OP_NAMES[os.op as usize]);
            if rep.samples.len() < 3 && k == 5 {
                rep.sample(json!({"case": c, "operation": OP_NAMES[os.op as usize], "pre_state": PRE_NAMES[os.pre as usize], "writer": if os.fe == 1 { "sharded" } else { "plain" }, "meaning": "the process is killed immediately before filesystem call #k of the operation"}));
            }
            if let Err((sig, detail)) = r {
                if sig.starts_with("harness:") {
                    rep.inconclusive.push(detail);
                } else {
                    rep.violation(&sig, detail, json!({"case": c}));
                }
            }
        }
    }
    rep
}
