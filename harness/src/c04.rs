//! C04 — plain-cache operations are linearizable per key: set overwrites, put never does.
use crate::c05::{gen_with, strategies, Gen};
use crate::common::*;
use crate::fe::*;
use crate::sched::*;
use serde_json::json;
use std::collections::HashSet;

type Id = (u32, u32);

#[derive(Clone, Debug)]
struct LOp {
    call: u64,
    ret: u64,
    kind: PKind,
    /// value written / populated
    v: Id,
    /// observed result: Some(Some(id)) = returned that value, Some(None) = miss / false, None = no information (error)
    obs: Option<Option<Id>>,
    failed: bool,
    stacked: bool,
}

fn id_of(v: &Val) -> Id {
    (v.writer, v.seq)
}

/// Wing-Gong style search with micro-steps for `ensure` (get; on miss: put; get).
fn linearizable(ops: &[LOp], init: Option<Id>) -> bool {
    let n = ops.len();
    // progress[i]: number of micro-steps of op i already placed; done when == steps(i)
    fn dfs(ops: &[LOp], prog: &mut Vec<u8>, done: &mut Vec<bool>, reg: Option<Id>, seen: &mut HashSet<(Vec<u8>, Vec<bool>, Option<Id>)>) -> bool {
        if done.iter().all(|d| *d) {
            return true;
        }
        if !seen.insert((prog.clone(), done.clone(), reg)) {
            return false;
        }
        let n = ops.len();
        for i in 0..n {
            if done[i] {
                continue;
            }
            // real-time order: op i may start only when every op that returned before its call is done
            if prog[i] == 0 && (0..n).any(|p| p != i && !done[p] && ops[p].ret < ops[i].call) {
                continue;
            }
            let o = &ops[i];
            // candidate transitions for the next micro-step of op i: (new register, op finished?)
            let mut cands: Vec<(Option<Id>, bool)> = Vec::new();
            let ensure = o.kind == PKind::Ensure && o.stacked;
            match (o.kind, ensure) {
                (PKind::Set, _) | (PKind::Replace, _) | (PKind::SetOtherFs, _) => {
                    if o.failed {
                        cands.push((reg, true));
                    }
                    cands.push((Some(o.v), true));
                }
                (PKind::Put, _) | (PKind::RawPut, _) | (PKind::Ensure, false) => {
                    if o.failed {
                        cands.push((reg, true));
                    }
                    cands.push((reg.or(Some(o.v)), true));
                }
                (PKind::Get, _) | (PKind::RoGet, _) | (PKind::Promote, _) => match o.obs {
                    None => cands.push((reg, true)),
                    Some(x) => {
                        if x == reg {
                            cands.push((reg, true));
                        }
                    }
                },
                (PKind::Touch, _) => match o.obs {
                    None => cands.push((reg, true)),
                    Some(x) => {
                        if x.is_some() == reg.is_some() {
                            cands.push((reg, true));
                        }
                    }
                },
                (PKind::Ensure, true) => {
                    let want = o.obs;
                    match prog[i] {
                        0 => {
                            // first lookup
                            match reg {
                                Some(x) => {
                                    if want.is_none() || want == Some(Some(x)) {
                                        cands.push((reg, true));
                                    }
                                }
                                None => cands.push((reg, false)),
                            }
                            if o.failed {
                                cands.push((reg, true));
                            }
                        }
                        1 => {
                            // the put after a miss
                            cands.push((reg.or(Some(o.v)), false));
                            if o.failed {
                                cands.push((reg, true));
                            }
                        }
                        _ => {
                            // the final lookup: returns what is there (its own file if the entry vanished)
                            let got = reg.or(Some(o.v));
                            if want.is_none() || want == Some(got) {
                                cands.push((reg, true));
                            }
                        }
                    }
                }
                _ => cands.push((reg, true)),
            }
            for (nreg, fin) in cands {
                prog[i] += 1;
                if fin {
                    done[i] = true;
                }
                // an op must finish before any op called after its return starts: enforced by the start rule
                if dfs(ops, prog, done, nreg, seen) {
                    return true;
                }
                prog[i] -= 1;
                done[i] = false;
            }
        }
        false
    }
    let mut seen = HashSet::new();
    dfs(ops, &mut vec![0; n], &mut vec![false; n], init, &mut seen)
}

pub fn judge_exec(l: &Layout, ex: &ExecOut) -> Result<(bool, u32), (String, String)> {
    let init: Option<Id> = if l.preload_writer.contains(&0) && !l.dirs_missing { Some((60, 0)) } else { None };
    let mut ops: Vec<LOp> = Vec::new();
    let mut errors = 0u32;
    for h in &ex.hist {
        let failed = h.ret.is_err();
        if failed {
            errors += 1;
        }
        let obs = match &h.ret {
            Ret::File(g) => match &g.val {
                Ok(v) => Some(Some(id_of(v))),
                Err(e) => return Err(("c04:garbage".into(), format!("participant {} op #{} returned a file that is not a complete value: {}", h.tid, h.op, e))),
            },
            Ret::Miss => Some(None),
            Ret::Bool(b) => Some(if *b { Some((0, 0)) } else { None }),
            _ => None,
        };
        ops.push(LOp { call: h.call_seq, ret: h.ret_seq, kind: h.pop.kind, v: h.val.as_ref().map(id_of).unwrap_or((0, 0)), obs, failed, stacked: l.kind >= 2 });
    }
    let overlap = ops.iter().enumerate().any(|(i, a)| ops.iter().enumerate().any(|(j, b)| i != j && a.call < b.ret && b.call < a.ret && (matches!(a.kind, PKind::Set | PKind::Put | PKind::Ensure | PKind::SetOtherFs) || matches!(b.kind, PKind::Set | PKind::Put | PKind::Ensure | PKind::SetOtherFs))));
    if linearizable(&ops, init) {
        Ok((overlap, errors))
    } else {
        let desc: Vec<String> = ex.hist.iter().map(|h| format!("[{}..{}] p{} {:?}{} -> {}", h.call_seq, h.ret_seq, h.tid, h.pop.kind, h.val.as_ref().map(|v| format!("({},{})", v.writer, v.seq)).unwrap_or_default(), h.ret.short())).collect();
        Err(("c04:not-linearizable".into(), format!("no linearization against the register specification (initial value {:?}): {}", init, desc.join("; "))))
    }
}

fn op_kinds(layout_kind: u8) -> Vec<PKind> {
    // (RawPut = the public raw layer's insert_or_touch, without the front-end's single retry)
    // (SetOtherFs = a set whose value was staged on another filesystem: it may fail, but if it reports
    // success it is a set like any other)
    let mut v = vec![PKind::Set, PKind::Put, PKind::Get, PKind::Get, PKind::Touch, PKind::RawPut, PKind::SetOtherFs];
    if layout_kind >= 2 {
        v.push(PKind::Ensure);
        v.push(PKind::Ensure);
    }
    v
}

pub fn replay(v: &serde_json::Value) -> Result<(), String> {
    let c: ConcCase = serde_json::from_value(v["case"].clone()).map_err(|e| e.to_string())?;
    drop_privileges();
    let scratch = Scratch::new("c04r");
    prepare(&scratch.path, &c.layout);
    let ex = run_conc(&scratch.path, &c.layout, &c.progs, &c.strategy, RunOpts::default());
    judge_exec(&c.layout, &ex).map(|_| ()).map_err(|(s, d)| format!("{}: {}", s, d))
}

pub fn normalise(g: &Gen) -> Gen {
    // one key, eviction out of play, no read-only level content
    let mut g = g.clone();
    g.layout.capacity = 1 << 40;
    g.layout.preload_reader.clear();
    g.layout.preload_writer.retain(|k| *k == 0);
    g.layout.preload_writer.dedup();
    g.layout.stale_debris = false;
    // one layout in six sits on a "filesystem without hard links" (every link fails with EPERM):
    // puts then fail, which is allowed, but nothing may ever be replaced
    g.layout.no_hard_links = fnv(format!("{:?}", g.progs).as_bytes()) % 6 == 0;
    for p in g.progs.iter_mut() {
        for o in p.iter_mut() {
            o.key = 0;
        }
    }
    g
}

pub fn run(ctx: &Ctx) -> Report {
    let mut rep = Report::default();
    rep.assumptions.insert(drop_privileges());
    let scratch = Scratch::new("c04");
    let root = scratch.path.clone();
    let opts = RunOpts::default();
    let sets = ctx.share(ctx.scale(480, 24000)) as u32;
    let rep_cell = std::cell::RefCell::new(&mut rep);
    let failing: std::cell::RefCell<Option<(ConcCase, String, String)>> = std::cell::RefCell::new(None);
    let found = prop_search(ctx, 4, sets, 40, &gen_with(false, vec![0, 2], vec![1 << 40], 3, op_kinds, 1), |g, exploring| {
        let g = normalise(g);
        for s in strategies(&root, &g, opts, true) {
            prepare(&root, &g.layout);
            let ex = run_conc(&root, &g.layout, &g.progs, &s, opts);
            clean(&root);
            let r = judge_exec(&g.layout, &ex);
            if exploring {
                let mut rep = rep_cell.borrow_mut();
                let nontrivial = matches!(r, Ok((true, _)));
                rep.case(if nontrivial { Some(fnv(format!("{:?}{:?}{:?}", g.layout, g.progs, ex.picks).as_bytes())) } else { None });
                if let Ok((_, e)) = &r {
                    rep.extra_add("operations_that_returned_an_error_(left_to_C05)", *e as u64);
                }
                rep.label(match s { Sched::Walk(_) => "strategy:random walk", Sched::Pct { .. } => "strategy:PCT", Sched::Preempt2 { .. } => "strategy:two preemptions (sampled)", Sched::Segments(_) => "strategy:explicit multi-preemption segments (sampled)", _ => "strategy:single preemption (enumerated)" });
                rep.label(if g.layout.kind >= 2 { "via Cache (with ensure)" } else { "via plain::Cache" });
                if g.layout.dirs_missing {
                    rep.label("cache directory initially missing");
                }
                if g.layout.no_hard_links {
                    rep.label("filesystem without hard links (link fails with EPERM)");
                }
                if nontrivial && rep.samples.len() < 2 {
                    let smp = json!({"layout": g.layout, "programs": g.progs, "strategy": s, "history": ex.hist.iter().map(|h| format!("[{}..{}] p{} {:?} -> {}", h.call_seq, h.ret_seq, h.tid, h.pop.kind, h.ret.short())).collect::<Vec<_>>()});
                    rep.sample(smp);
                }
            }
            if let Err((sig, detail)) = r {
                *failing.borrow_mut() = Some((ConcCase { layout: g.layout.clone(), progs: g.progs.clone(), strategy: s.clone() }, sig.clone(), detail.clone()));
                return Err(format!("{}|{}", sig, detail));
            }
        }
        Ok(())
    });
    drop(rep_cell);
    if found.is_some() {
        if let Some((case, sig, detail)) = failing.borrow().clone() {
            rep.violation(&sig, detail, json!({"case": case}));
        }
    }
    rep
}
