//! C18 — I/O failures are reported, never masked, and leave the cache valid.
use crate::common::*;
use crate::fe::*;
use crate::opstate::*;
use crate::shim::Fault;
use serde::{Deserialize, Serialize};
use serde_json::json;
use std::path::Path;

#[derive(Clone, Debug, Serialize, Deserialize)]
pub struct Case {
    pub os: OsCase,
    pub k: u32,
    pub errno: i32,
    /// call k is the LAST unlink attempt on a library temp file in the fault-free trace (the drop
    /// guard's): only then is a leaked temp file unavoidable
    #[serde(default)]
    pub last_temp_unlink: bool,
}

fn errnos_for(call: &str, arg: i64) -> Vec<i32> {
    let creating = call == "open" && (arg as i32 & libc::O_CREAT) != 0;
    match call {
        "open" => {
            let mut v = vec![libc::EIO, libc::EACCES, libc::EMFILE, libc::ESTALE];
            if creating || (arg as i32 & libc::O_TMPFILE) == libc::O_TMPFILE {
                v.push(libc::ENOSPC);
            }
            v
        }
        "opendir" => vec![libc::EIO, libc::EACCES, libc::EMFILE, libc::ESTALE],
        "stat" | "fstat" | "readdir" | "read" | "lseek" => vec![libc::EIO, libc::ESTALE],
        "chmod" | "fchmod" | "futimens" | "utimensat" | "unlink" => vec![libc::EIO, libc::EACCES, libc::ESTALE],
        // EXDEV: the value was staged on another filesystem; EMLINK: the inode's link count is at its limit
        "rename" => vec![libc::EIO, libc::EACCES, libc::ENOSPC, libc::ESTALE, libc::EXDEV],
        "link" => vec![libc::EIO, libc::EACCES, libc::ENOSPC, libc::ESTALE, libc::EXDEV, libc::EMLINK],
        "mkdir" => vec![libc::EIO, libc::EACCES, libc::ENOSPC, libc::ESTALE],
        // errno 0 stands for a SHORT count: the call succeeds but transfers only part of the data
        "write" | "copy_file_range" => vec![libc::EIO, libc::ENOSPC, 0],
        "ftruncate" | "fsync" => vec![libc::EIO, libc::ENOSPC],
        "close" => vec![libc::EIO],
        _ => vec![],
    }
}

fn temp_files(root: &Path) -> Vec<String> {
    let mut v: Vec<String> = snapshot_meta(root).into_iter().filter(|(p, e)| e.kind == 'f' && (p.contains(".kismet_temp/") || p.starts_with("TMP/"))).map(|(p, _)| p).collect();
    v.sort();
    v
}

/// The fault-free reference run: returns the trace (one entry per call) or None if the case is not
/// meaningful (the fault-free operation itself fails by contract).
pub fn reference(root: &Path, os: &OsCase) -> Option<Vec<(String, i64, String)>> {
    let b = build(root, os);
    let world = trace_world(&[root]);
    let (r, ev) = traced(&world, || run_op(root, &b));
    clean(root);
    match r {
        Ok(ret) if !ret.is_err() => Some(ev.iter().filter(|e| e.op == 0 && e.idx != u32::MAX).map(|e| (e.call.to_string(), e.arg, e.path.clone())).collect()),
        _ => None,
    }
}

pub fn judge(root: &Path, c: &Case) -> Result<bool, (String, String)> {
    let b = build(root, &c.os);
    let world = trace_world(&[root]);
    let temps_before = temp_files(root);
    let (r, ev) = traced(&world, || {
        crate::shim::set_fault(if c.errno == 0 { Fault::Short(c.k) } else { Fault::Inject(c.k, c.errno) });
        let ret = run_op(root, &b);
        let hit = crate::shim::fault_was_hit();
        crate::shim::set_fault(Fault::None);
        (ret, hit)
    });
    let res = (|| -> Result<bool, (String, String)> {
        let (ret, hit) = r.map_err(|p| ("c18:panic".to_string(), p))?;
        if !hit {
            return Ok(false);
        }
        let inj = ev.iter().find(|e| e.injected || (c.errno == 0 && e.idx == c.k && e.op == 0)).cloned();
        let what = || format!("{} [{} / {} / fe {}] with {} failing (errno {})", OP_NAMES[c.os.op as usize], PRE_NAMES[c.os.pre as usize], if c.os.fire { "maintenance fires" } else { "no maintenance" }, c.os.fe, inj.as_ref().map(|e| e.short()).unwrap_or_default(), if c.errno == 0 { "0 = short count".to_string() } else { c.errno.to_string() });
        // (1) panics
        if let Ret::Panic(m) = &ret {
            let documented = m.contains("auto_sync failed") && matches!(c.os.op, 5 | 6) && inj.as_ref().map(|e| e.call == "fsync").unwrap_or(false);
            if !documented {
                return Err(("c18:panic".into(), format!("{} panicked: {}", what(), m)));
            }
        }
        let mut allowed: Vec<Val> = b.pre_writer.values().cloned().collect();
        allowed.extend(b.pre_reader.values().cloned());
        allowed.push(b.new_val.clone());
        // (2) success means the effect happened
        let absence_errno = c.errno == libc::ESTALE || c.errno == libc::ENOENT;
        // an absence errno (stale handle) on any call that acts on the entry itself is documented as benign
        let lookup_open_failed = inj.as_ref().map(|e| e.path.ends_with(&format!("/{}", KEY)) && !e.path.contains(".kismet_temp")).unwrap_or(false);
        let pre_key = b.pre_writer.get(KEY).cloned();
        let disk_key = on_disk(root, &b, &b.key);
        match (&ret, c.os.op) {
            (Ret::Unit, 0) | (Ret::Unit, 5) | (Ret::Unit, 7) => {
                if disk_key.as_ref() != Some(&b.new_val) {
                    return Err(("c18:success-without-effect".into(), format!("{} returned Ok but the key holds {:?}", what(), disk_key.as_ref().map(|v| v.header()))));
                }
            }
            (Ret::Unit, 1) | (Ret::Unit, 6) | (Ret::Unit, 8) => {
                let want = pre_key.clone().unwrap_or_else(|| b.new_val.clone());
                let ok = disk_key.as_ref() == Some(&want) || (absence_errno && disk_key.as_ref() == Some(&b.new_val));
                if !ok {
                    return Err(("c18:success-without-effect".into(), format!("{} returned Ok but the key holds {:?} (expected {})", what(), disk_key.as_ref().map(|v| v.header()), want.header())));
                }
            }
            (Ret::Miss, 2) => {
                if pre_key.is_some() && !(absence_errno && lookup_open_failed) {
                    return Err(("c18:error-masked-as-miss".into(), format!("{} reported a miss although the key is cached", what())));
                }
            }
            (Ret::Bool(false), 3) => {
                if pre_key.is_some() && !(absence_errno && lookup_open_failed) {
                    return Err(("c18:error-masked-as-miss".into(), format!("{} reported absence although the key is cached", what())));
                }
            }
            (Ret::Bool(true), 3) => {
                if pre_key.is_none() {
                    return Err(("c18:success-without-effect".into(), format!("{} reported presence of an absent key", what())));
                }
            }
            (Ret::File(g), _) => {
                let v = g.val.as_ref().map_err(|e| ("c18:incomplete-content".to_string(), format!("{} returned a file that is not a complete value: {}", what(), e)))?;
                if !allowed.contains(v) || v.key != KEY {
                    return Err(("c18:wrong-content".into(), format!("{} returned {}", what(), v.header())));
                }
                // exact expectation unless an absence errno legitimately turned a hit into a miss
                let hit = pre_key.clone().or_else(|| if c.os.op >= 9 { b.pre_reader.get(KEY).cloned() } else { None });
                let expect = match (c.os.op, hit) {
                    (12, _) => b.new_val.clone(),
                    (_, Some(h)) => h,
                    (_, None) => b.new_val.clone(),
                };
                if *v != expect && !absence_errno {
                    return Err(("c18:wrong-content".into(), format!("{} returned {} but {} was expected", what(), v.header(), expect.header())));
                }
                if matches!(c.os.op, 9 | 11 | 12) || (c.os.op == 10 && b.pre_reader.get(KEY).is_none() && pre_key.is_none()) {
                    // ensure / Promote / Replace / miss report success: the write cache must now hold a value for the key
                    if disk_key.is_none() {
                        return Err(("c18:success-without-effect".into(), format!("{} returned Ok but the write cache holds nothing for the key", what())));
                    }
                }
            }
            (Ret::Unit, 4) => {}
            _ => {}
        }
        if matches!(ret, Ret::Unit) && matches!(c.os.op, 0 | 1 | 5 | 6 | 7 | 8) {
            let left: Vec<String> = crate::shim::bypass(|| std::fs::read_dir(staging(root)).map(|rd| rd.flatten().map(|e| e.file_name().to_string_lossy().into_owned()).collect()).unwrap_or_default());
            // a stale-handle error on the unlink of the source means "already gone" to the library (benign by documentation)
            let excused = absence_errno && inj.as_ref().map(|e| e.call == "unlink").unwrap_or(false);
            if !left.is_empty() && !excused {
                return Err(("c18:source-not-consumed".into(), format!("{} returned Ok but its source still exists: {:?}", what(), left)));
            }
        }
        // (3) the directories remain valid in the crash-safety sense
        validity(root, &b, &allowed).map_err(|(s, d)| (format!("c18:{}", s), format!("{}: {}", what(), d)))?;
        // (3b) validity at every instant, not only at the end: a name that holds (or is about to hold) a
        // published value is never created empty or truncated in place -- a crash right after such a
        // call would leave an incomplete value under a key name (recovery paths after a fault included)
        for e in ev.iter().filter(|e| e.op == 0 && e.idx != u32::MAX && (e.call == "open" || e.call == "openat") && e.ret >= 0) {
            let fl = e.arg as i32;
            let name = e.path.rsplit('/').next().unwrap_or("");
            let published = e.path.starts_with(&*root.to_string_lossy()) && !name.starts_with('.') && !name.is_empty() && !e.path.contains("/.kismet_temp/") && !e.path.contains("/staging/") && !e.path.contains("/TMP/");
            if published && (fl & libc::O_TMPFILE) != libc::O_TMPFILE && (fl & (libc::O_TRUNC | libc::O_CREAT)) != 0 {
                return Err(("c18:published-name-written-in-place".into(), format!("{}: the library then opened the published name {} with creation/truncation flags {:#o}: the value under a key name is incomplete until the write finishes", what(), e.path, fl)));
            }
        }
        // (4) no temporary file created by the library is left behind
        let temps_after = temp_files(root);
        for t in temps_after.iter().filter(|t| !temps_before.contains(t)) {
            // the library removes its temp file in the publication step AND through a drop guard: a single
            // failing unlink leaks it only if it was the last attempt the fault-free run makes
            let excused = c.last_temp_unlink && inj.as_ref().map(|e| e.call == "unlink" && e.path.ends_with(t.rsplit('/').next().unwrap())).unwrap_or(false);
            if !excused {
                return Err(("c18:temp-file-leaked".into(), format!("{} left {} behind", what(), t)));
            }
        }
        // (5) re-issuing the operation without the fault succeeds
        crate::shim::bypass(|| {
            let _ = std::fs::remove_dir_all(staging(root));
        });
        let again = run_op(root, &b);
        if again.is_err() {
            return Err(("c18:retry-fails".into(), format!("{}: the same operation re-issued without fault returned {}", what(), again.short())));
        }
        validity(root, &b, &allowed).map_err(|(s, d)| (format!("c18:{}", s), format!("{} (after the retry): {}", what(), d)))?;
        Ok(true)
    })();
    clean(root);
    res
}

pub fn replay(v: &serde_json::Value) -> Result<(), String> {
    let c: Case = serde_json::from_value(v["case"].clone()).map_err(|e| e.to_string())?;
    drop_privileges();
    let scratch = Scratch::new("c18r");
    std::env::set_var("TMPDIR", scratch.p("TMP"));
    crate::shim::bypass(|| std::fs::create_dir_all(scratch.p("TMP")).unwrap());
    judge(&scratch.p("w"), &c).map(|_| ()).map_err(|(s, d)| format!("{}: {}", s, d))
}

pub fn run(ctx: &Ctx) -> Report {
    let mut rep = Report { exhaustive: true, ..Default::default() };
    rep.assumptions.insert(drop_privileges());
    let scratch = Scratch::new("c18");
    std::env::set_var("TMPDIR", scratch.p("TMP"));
    crate::shim::bypass(|| std::fs::create_dir_all(scratch.p("TMP")).unwrap());
    let root = scratch.p("w");
    crate::shim::bypass(|| std::fs::create_dir_all(&root).unwrap());
    let sizes: Vec<usize> = if ctx.tier == Tier::Thorough { vec![1, 17, 8193, 70_000] } else { vec![17, 8193] };
    for (i, os) in all_cases(&sizes).into_iter().enumerate() {
        if !ctx.mine(i as u64) {
            continue;
        }
        let Some(calls) = reference(&root, &os) else {
            rep.label("skipped: fault-free operation fails by contract");
            continue;
        };
        rep.extra_add("operation_state_cases", 1);
        let last_temp_unlink = calls.iter().enumerate().filter(|(_, (call, _, path))| call == "unlink" && path.contains(".kismet_temp/")).map(|(i, _)| i).last();
        for (k, (call, arg, _path)) in calls.iter().enumerate() {
            for errno in errnos_for(call, *arg) {
                let c = Case { os: os.clone(), k: k as u32, errno, last_temp_unlink: last_temp_unlink == Some(k) };
                let r = judge(&root, &c);
                rep.evaluations += 1;
                if matches!(r, Ok(true)) {
                    rep.nontrivial_enum += 1;
                }
                rep.label(&format!("fault at {}", call));
                if rep.samples.len() < 3 && k == 3 {
                    rep.sample(json!({"case": c, "operation": OP_NAMES[os.op as usize], "pre_state": PRE_NAMES[os.pre as usize], "writer": if os.fe == 1 { "sharded" } else { "plain" }, "failing_call": call, "meaning": "filesystem call #k of the operation fails once with errno"}));
                }
                if let Err((sig, detail)) = r {
                    rep.violation(&sig, detail, json!({"case": c}));
                }
            }
        }
    }
    rep
}
