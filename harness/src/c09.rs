//! C09 — reads mark entries as used without reordering; writes enqueue them fresh.
use crate::common::*;
use crate::direxplain::{explain, DirState};
use crate::fe::*;
use crate::shim::{AtimePolicy, Emu, World, WorldCfg};
use proptest::prelude::*;
use serde::{Deserialize, Serialize};
use serde_json::json;
use std::collections::BTreeMap;
use std::path::Path;

#[derive(Clone, Debug, Serialize, Deserialize)]
pub struct Step {
    /// index into ADVANCES
    pub advance: u8,
    /// 0 set, 1 put, 2 get+read, 3 get without reading, 4 touch, 5 ensure, 6 forced maintenance (prune to n-1),
    /// 7 the entry is re-dated one hour into the FUTURE behind the library's back (a peer with a fast clock)
    pub op: u8,
    pub key: u8,
    pub fire: bool,
    /// the operation goes through a freshly opened handle (another process / a restart)
    #[serde(default)]
    pub fresh: bool,
    /// the value this step writes (if it writes) is EMPTY: zero bytes are a legal value
    #[serde(default)]
    pub empty: bool,
}

#[derive(Clone, Debug, Serialize, Deserialize)]
pub struct Hist {
    /// 0 real kernel + real clock; 1 relatime, 2 noatime, 3 strict (emulated)
    pub policy: u8,
    /// 0 native (1 ns), 1 = 1 s, 2 = 2 s
    pub gran: u8,
    pub phase: u8,
    /// 0 plain, 1 sharded(2), 2 stacked over plain
    pub fe: u8,
    pub cap_sel: u8,
    pub steps: Vec<Step>,
}

const ADVANCES: &[i128] = &[0, 1, 1_000_000, 600_000_000, 1_000_000_000, 3_000_000_000];
const GRANS: &[i64] = &[1, 1_000_000_000, 2_000_000_000];
const PHASES: &[i128] = &[0, 300_000_000, 999_999_999, 1_500_000_000];

fn gen_hist() -> impl Strategy<Value = Hist> {
    (0u8..4, 0u8..3, 0u8..4, 0u8..3, 0u8..3, prop::collection::vec((0u8..6, prop_oneof![12 => 0u8..7, 1 => Just(7u8)], 0u8..4, prop::bool::weighted(0.5), prop::bool::weighted(0.15), prop::bool::weighted(0.2)), 1..26)).prop_map(|(policy, gran, phase, fe, cap_sel, steps)| Hist {
        policy,
        gran: if policy == 0 { 0 } else { gran },
        phase,
        fe,
        cap_sel,
        steps: steps.into_iter().map(|(advance, op, key, fire, fresh, empty)| Step { advance, op, key, fire, fresh, empty }).collect(),
    })
}

fn key_spec(i: u8) -> KeySpec {
    // two keys per shard with 2 shards (hashes chosen so that both shards are used)
    let hashes = [0u64, 1, 0x8000_0000_0000_0001, 0xc000_0000_0000_0000];
    KeySpec::new(&format!("k{}", i % 4), hashes[(i % 4) as usize], !hashes[(i % 4) as usize])
}

pub struct Outcome {
    pub mark_decided_victim: bool,
    pub steps: u64,
    /// occurrences of the recorded finding "sharded forced maintenance runs after the insertion"
    pub known_after_insertion: Vec<String>,
}

pub fn judge(root: &Path, h: &Hist) -> Result<Outcome, (String, String)> {
    let caps = [2usize, 3, 1 << 40];
    let cap = caps[h.cap_sel as usize % 3];
    let wspec = if h.fe == 1 { DirSpec::Sharded { dir: "W".into(), shards: 2, cap: if cap > 1000 { cap } else { cap * 2 } } } else { DirSpec::Plain { dir: "W".into(), cap } };
    let dcap = wspec.dir_capacity();
    let gran = GRANS[h.gran as usize % 3];
    let emu = match h.policy {
        1 => Some(Emu { policy: AtimePolicy::Relatime, gran_ns: gran }),
        2 => Some(Emu { policy: AtimePolicy::Noatime, gran_ns: gran }),
        3 => Some(Emu { policy: AtimePolicy::Strict, gran_ns: gran }),
        _ => None,
    };
    let t0 = now_ns();
    let vstart = if emu.is_some() { (t0 / 2_000_000_000) * 2_000_000_000 + PHASES[h.phase as usize % 4] } else { 0 };
    let world = World::new(WorldCfg { roots: vec![root.to_string_lossy().into_owned()], trace: true, capture_listings: true, emu, vclock: vstart, ..Default::default() });
    crate::shim::bypass(|| std::fs::create_dir_all(root.join("W")).unwrap());
    let handle = if h.fe == 2 { open_stack(root, &StackSpec { writer: Some(wspec.clone()), readers: vec![], checker: Checker::None, auto_sync: false }) } else { open_dir(root, &wspec) };
    // model: per key, virtual time of its last enqueue (set / inserting put / reprieve)
    let mut enq: BTreeMap<String, i128> = BTreeMap::new();
    let mut content: BTreeMap<String, Val> = BTreeMap::new();
    let mut out = Outcome { mark_decided_victim: false, steps: 0, known_after_insertion: Vec::new() };
    let root_s = root.to_string_lossy().into_owned();
    let w_root = root.join("W");
    let mut prev = snapshot(&w_root);
    let res = (|| -> Result<(), (String, String)> {
        let n_steps = h.steps.len();
        for si in 0..=n_steps {
            // the history always ends with a forced maintenance of every directory
            let st = if si < n_steps { h.steps[si].clone() } else { Step { advance: 4, op: 6, key: 0, fire: false, fresh: false, empty: false } };
            world.advance_clock(ADVANCES[st.advance as usize % ADVANCES.len()]);
            let vnow = if emu.is_some() { world.clock() } else { now_ns() };
            let ks = key_spec(st.key);
            let val = if st.empty { Val::new(&ks.name, EMPTY_WRITER, si as u32, 0) } else { Val::new(&ks.name, 1, si as u32, 17) };
            let ctx = || format!("step {} op {} key {} [policy {} gran {}ns fe {} cap {}]", si, st.op, ks.name, h.policy, gran, h.fe, cap);
            let kind = match st.op {
                0 => OpKind::Set,
                1 => OpKind::Put,
                2 | 3 => OpKind::Get,
                4 => OpKind::Touch,
                5 => if h.fe == 2 { OpKind::Ensure } else { OpKind::Put },
                _ => OpKind::Get, // placeholder, maintenance handled below
            };
            let existed_at = prev.iter().find(|(p, e)| e.kind == 'f' && !p.contains(".kismet_temp") && p.rsplit('/').next() == Some(ks.name.as_str())).map(|(p, e)| (p.clone(), e.clone()));
            if st.op == 7 {
                // skew: only the timestamps of an existing entry change (unmarked, one hour ahead)
                if let Some((p, _)) = &existed_at {
                    // (stored timestamps respect the emulated granularity)
                    let m0 = vnow + 3_600_000_000_000;
                    let m = m0 - m0.rem_euclid(gran as i128);
                    let _ = set_times_ns(&w_root.join(p), m - 120_000_000_000, m);
                    prev = snapshot(&w_root);
                }
                out.steps += 1;
                continue;
            }
            if st.op == 6 {
                // forced maintenance: prune every directory holding entries down to n-1
                let dirs: Vec<String> = {
                    let mut d: Vec<String> = prev.iter().filter(|(p, e)| e.kind == 'f' && !p.contains(".kismet_temp")).map(|(p, _)| p.rsplit_once('/').map(|x| x.0.to_string()).unwrap_or_default()).collect();
                    d.sort();
                    d.dedup();
                    d
                };
                for d in dirs {
                    let before = DirState::from_snap(&prev, &d);
                    let n = before.files.len();
                    if n == 0 {
                        continue;
                    }
                    let target = w_root.join(&d);
                    let (r, _ev) = traced(&world, || kismet_cache::raw_cache::prune(target.clone(), n - 1));
                    match r {
                        Ok(Ok(_)) => {}
                        other => return Err(("c09:prune-failed".into(), format!("{}: prune returned {:?}", ctx(), other.map(|r| r.map_err(|e| e.to_string()))))),
                    }
                    let cur = snapshot(&w_root);
                    let after = DirState::from_snap(&cur, &d);
                    let ex = explain(&before, &after, n - 1, None, false).map_err(|why| ("c09:maintenance-ignores-marks".to_string(), format!("{}: {} in {}", ctx(), why, d)))?;
                    // did a read mark decide the victim? (some unmarked or marked entry older than the victim was spared)
                    if let Some(g) = ex.gone.first() {
                        let gm = before.files[g].0;
                        if before.files.iter().any(|(k, (m, a))| k != g && *m <= gm && a >= m) {
                            out.mark_decided_victim = true;
                        }
                    }
                    for g in &ex.gone {
                        enq.remove(g);
                        content.remove(g);
                    }
                    for r in &ex.restamped {
                        enq.insert(r.clone(), vnow);
                    }
                    prev = cur;
                }
                out.steps += 1;
                continue;
            }
            set_no_read(st.op == 3);
            let op = Op { kind, key: ks.clone(), val: val.clone(), pop: Pop::Value, nosy: false, link_from: None };
            let fresh_handle = if st.fresh { Some(if h.fe == 2 { open_stack(root, &StackSpec { writer: Some(wspec.clone()), readers: vec![], checker: Checker::None, auto_sync: false }) } else { open_dir(root, &wspec) }) } else { None };
            let (r, ev) = traced(&world, || {
                script_rng(st.fire, 1);
                exec(root, fresh_handle.as_ref().unwrap_or(&handle), &op)
            });
            set_no_read(false);
            let (ret, _) = r.map_err(|p| ("c09:panic".to_string(), format!("{}: {}", ctx(), p)))?;
            if ret.is_err() {
                return Err(("c09:error".into(), format!("{}: {}", ctx(), ret.short())));
            }
            out.steps += 1;
            let cur = snapshot(&w_root);
            // maintenance inside the operation: explained per directory (the operation's key excluded)
            let mut evicted: Vec<String> = Vec::new();
            let mut restamped: Vec<String> = Vec::new();
            let mut maintained: Vec<String> = Vec::new();
            for od in ev.iter().filter(|e| e.call == "opendir" && e.ok() && !e.path.ends_with(".kismet_temp")) {
                let Some(rel) = od.path.strip_prefix(&format!("{}/W", root_s)).map(|s| s.trim_start_matches('/').to_string()) else { continue };
                let before = DirState::from_listing(od.listing.as_ref().unwrap());
                let after = DirState::from_snap(&cur, &rel);
                let own_unlinked = ev.iter().any(|e| e.call == "unlink" && e.ok() && e.path == format!("{}/{}", od.path, ks.name) && e.seq > od.seq);
                let ex = explain(&before, &after, dcap, Some(ks.name.as_str()), own_unlinked).map_err(|why| ("c09:maintenance".to_string(), format!("{}: {} in {}", ctx(), why, od.path)))?;
                evicted.extend(ex.gone.iter().cloned());
                restamped.extend(ex.restamped.iter().cloned());
                maintained.push(rel);
            }
            for g in &evicted {
                if *g != ks.name {
                    enq.remove(g);
                    content.remove(g);
                }
            }
            for r in &restamped {
                enq.insert(r.clone(), vnow);
            }
            // the maintenance inside this very operation may have reprieved the operation's own key (the trace tells)
            let own_restamped = {
                // only a futimens inside a maintenance window counts: after a listing of the entry's
                // directory and before the operation's own publication attempt
                let attempt = ev.iter().find(|e| (e.call == "rename" || e.call == "link") && e.path2.ends_with(&format!("/{}", ks.name)) && !e.path2.contains(".kismet_temp")).map(|e| e.seq).unwrap_or(u64::MAX);
                ev.iter().any(|x| {
                    matches!(x.call, "futimens" | "utimensat")
                        && x.ok()
                        && x.path.ends_with(&format!("/{}", ks.name))
                        && !x.path.contains(".kismet_temp")
                        && !x.path.contains("/staging/")
                        && x.times.map(|t| t[1].1 != libc::UTIME_OMIT).unwrap_or(false)
                        && x.seq < attempt
                        && ev.iter().any(|o| o.call == "opendir" && o.ok() && o.seq < x.seq && x.path == format!("{}/{}", o.path, ks.name))
                })
            };
            if own_restamped {
                enq.insert(ks.name.clone(), vnow);
            }
            let now_at = cur.iter().find(|(p, e)| e.kind == 'f' && !p.contains(".kismet_temp") && p.rsplit('/').next() == Some(ks.name.as_str())).map(|(p, e)| (p.clone(), e.clone()));
            let wrote_fresh = match st.op {
                0 => true,
                1 | 5 => existed_at.is_none() || evicted.contains(&ks.name),
                _ => false,
            };
            // KNOWN FINDING (see known_findings.json): a sharded write whose in-memory load estimate says
            // the shard is much too big forces a maintenance of that shard AFTER its own insertion, so
            // reprieved entries end up behind the fresh entry (which may even be evicted at once).
            // (for a put onto an existing key the "insertion" is the link attempt that fails with EEXIST)
            let publish_ev = ev.iter().find(|e| (e.call == "rename" || e.call == "link") && e.path2.ends_with(&format!("/{}", ks.name)) && !e.path2.contains(".kismet_temp"));
            let maintained_after_insertion = wspec.is_sharded()
                && matches!(st.op, 0 | 1 | 5)
                && publish_ev.map(|p| ev.iter().any(|o| o.call == "opendir" && o.ok() && o.seq > p.seq && p.path2 == format!("{}/{}", o.path, ks.name))).unwrap_or(false);
            if wrote_fresh && maintained_after_insertion {
                out.known_after_insertion.push(ctx());
                if let Some((_, e)) = &now_at {
                    enq.insert(ks.name.clone(), vnow);
                    if let Some(v) = &e.val {
                        content.insert(ks.name.clone(), v.clone());
                    }
                } else {
                    enq.remove(&ks.name);
                    content.remove(&ks.name);
                }
            } else if maintained_after_insertion {
                // same known finding, for a put/ensure onto an existing key: the forced maintenance that
                // follows re-stamps (reprieves) the entry the put has just marked
                out.known_after_insertion.push(ctx());
                if let Some((_, e)) = &now_at {
                    enq.insert(ks.name.clone(), vnow);
                    let _ = e;
                } else {
                    enq.remove(&ks.name);
                    content.remove(&ks.name);
                }
            } else if wrote_fresh {
                // ---- a set, or a put that inserts: newest queue position, not marked
                let (path, e) = now_at.clone().ok_or_else(|| ("c09:write-lost".to_string(), format!("{}: the entry does not exist after a successful write", ctx())))?;
                let dir = path.rsplit_once('/').map(|x| x.0.to_string()).unwrap_or_default();
                // (an ensure hands back a handle on the new entry, which the caller reads: that is a use)
                if e.atime >= e.mtime && st.op != 5 {
                    return Err(("c09:fresh-entry-marked".into(), format!("{}: freshly written entry {} already carries a read mark (atime {} >= mtime {})", ctx(), path, e.atime, e.mtime)));
                }
                for (p, o) in cur.iter().filter(|(p, o)| o.kind == 'f' && !p.contains(".kismet_temp") && **p != path && p.rsplit_once('/').map(|x| x.0.to_string()).unwrap_or_default() == dir) {
                    let oname = p.rsplit('/').next().unwrap();
                    if o.mtime > vnow + 60_000_000_000 {
                        continue; // dated in the future by a skewed peer: nothing written now can be behind it
                    }
                    if o.mtime > e.mtime {
                        return Err(("c09:fresh-entry-not-newest".into(), format!("{}: freshly written entry {} (mtime {}) is older than {} (mtime {})", ctx(), path, e.mtime, p, o.mtime)));
                    }
                    if emu.is_some() {
                        if let Some(t) = enq.get(oname) {
                            if vnow - *t >= gran as i128 && o.mtime >= e.mtime {
                                return Err(("c09:fresh-entry-not-strictly-newest".into(), format!("{}: {} was enqueued {} ns earlier (>= one timestamp granule) but its mtime {} is not older than the fresh entry's {}", ctx(), p, vnow - *t, o.mtime, e.mtime)));
                            }
                        }
                    }
                }
                enq.insert(ks.name.clone(), vnow);
                content.insert(ks.name.clone(), val.clone());
                if st.empty {
                    if e.size != 0 {
                        return Err(("c09:content".into(), format!("{}: an empty value was written but the entry holds {} bytes", ctx(), e.size)));
                    }
                } else if e.val.as_ref() != Some(&val) {
                    return Err(("c09:content".into(), format!("{}: entry holds {:?}", ctx(), e.val.as_ref().map(|v| v.header()))));
                }
            } else if let Some((ppath, pe)) = &existed_at {
                // ---- get / touch / put or ensure onto an existing key: marked, same position, same content
                if evicted.contains(&ks.name) {
                    // (only possible for put/ensure, handled above as a fresh write)
                } else {
                    let (path, e) = now_at.clone().ok_or_else(|| ("c09:entry-lost".to_string(), format!("{}: the entry vanished", ctx())))?;
                    if path != *ppath || e.ino != pe.ino || e.hash != pe.hash {
                        return Err(("c09:content-changed".into(), format!("{}: a read-type operation replaced the entry ({} -> {})", ctx(), ppath, path)));
                    }
                    let moved_back = restamped.contains(&ks.name) || own_restamped;
                    if e.mtime != pe.mtime && !moved_back {
                        return Err(("c09:reordered".into(), format!("{}: queue position changed: mtime {} -> {}", ctx(), pe.mtime, e.mtime)));
                    }
                    let found = matches!(ret, Ret::File(_) | Ret::Bool(true) | Ret::Unit);
                    // An entry dated in the future (clock skew between writers, outside the property's
                    // quantifier): the library's lookup marks it (atime := mtime), but touch and put-onto-
                    // existing stamp the local "now", and so does the kernel when the handle is then READ
                    // (relatime/strict: atime <= mtime => atime := now). Only a lookup whose handle is not
                    // read shows the library's own doing, so only that one is demanded on skewed entries.
                    let skewed = pe.mtime > vnow + 60_000_000_000;
                    let stamps_now = st.op != 3;
                    if found && e.atime < e.mtime && !moved_back && !(skewed && stamps_now) {
                        return Err(("c09:not-marked".into(), format!("{}: after a successful {} the entry is not recognisable as used (atime {} < mtime {})", ctx(), ["set", "put", "get (handle read)", "get (handle not read)", "touch", "ensure", "", ""][st.op as usize], e.atime, e.mtime)));
                    }
                }
            } else {
                // lookup of an absent key: must miss and create nothing
                match (&ret, st.op) {
                    (Ret::Miss, 2) | (Ret::Miss, 3) | (Ret::Bool(false), 4) => {}
                    _ => return Err(("c09:phantom".into(), format!("{}: returned {} for an absent key", ctx(), ret.short()))),
                }
            }
            // ---- every other entry is untouched unless maintenance explained it
            for (p, o) in prev.iter().filter(|(p, o)| o.kind == 'f' && !p.contains(".kismet_temp")) {
                let name = p.rsplit('/').next().unwrap();
                if name == ks.name {
                    continue;
                }
                match cur.get(p) {
                    None => {
                        if !evicted.iter().any(|g| g == name) {
                            return Err(("c09:other-entry-lost".into(), format!("{}: {} disappeared without an explained eviction", ctx(), p)));
                        }
                    }
                    Some(c) => {
                        let dir = p.rsplit_once('/').map(|x| x.0.to_string()).unwrap_or_default();
                        if !maintained.contains(&dir) && (c.mtime != o.mtime || c.atime != o.atime || c.ino != o.ino) {
                            return Err(("c09:other-entry-touched".into(), format!("{}: {} changed ({:?} -> {:?}) although its directory was not maintained", ctx(), p, (o.mtime, o.atime), (c.mtime, c.atime))));
                        }
                    }
                }
            }
            crate::shim::bypass(|| {
                let _ = std::fs::remove_dir_all(staging(root));
            });
            prev = cur;
        }
        Ok(())
    })();
    set_no_read(false);
    drop(handle);
    crate::shim::bypass(|| {
        if let Ok(rd) = std::fs::read_dir(root) {
            for e in rd.flatten() {
                let _ = std::fs::remove_dir_all(e.path());
            }
        }
    });
    res.map(|_| out)
}

pub fn replay(v: &serde_json::Value) -> Result<(), String> {
    let h: Hist = serde_json::from_value(v["history"].clone()).map_err(|e| e.to_string())?;
    drop_privileges();
    let scratch = Scratch::new("c09r");
    judge(&scratch.path, &h).map(|_| ()).map_err(|(s, d)| format!("{}: {}", s, d))
}

pub fn run(ctx: &Ctx) -> Report {
    let mut rep = Report::default();
    rep.assumptions.insert(drop_privileges());
    let scratch = Scratch::new("c09");
    let cases = ctx.share(ctx.scale(160_000, 1_600_000)) as u32;
    let rep_cell = std::cell::RefCell::new(&mut rep);
    let found = prop_search(ctx, 9, cases, 600, &gen_hist(), |h, exploring| {
        let r = judge(&scratch.path, h);
        if exploring {
            let mut rep = rep_cell.borrow_mut();
            let read_then_maint = h.steps.iter().any(|s| matches!(s.op, 2 | 3 | 4));
            let nontrivial = matches!(&r, Ok(o) if o.mark_decided_victim) && read_then_maint;
            rep.case(if nontrivial { Some(fnv(format!("{:?}", h).as_bytes())) } else { None });
            rep.label(["policy:kernel default (real clock)", "policy:relatime (emulated)", "policy:noatime (emulated)", "policy:strict (emulated)"][h.policy as usize % 4]);
            rep.label(["granularity:native", "granularity:1s", "granularity:2s"][h.gran as usize % 3]);
            rep.label(["fe:plain", "fe:sharded", "fe:stacked"][h.fe as usize % 3]);
            if let Ok(o) = &r {
                rep.extra_add("steps_executed", o.steps);
                if !o.known_after_insertion.is_empty() {
                    rep.excluded_known += o.known_after_insertion.len() as u64;
                    let s = json!({"history": h});
                    rep.violation("c09:sharded-forced-maintenance-after-insertion", format!("sharded set/put forced a maintenance of the shard after its own insertion: {}", o.known_after_insertion[0]), s);
                }
            }
            if nontrivial && rep.samples.len() < 2 && h.steps.len() <= 8 {
                let s = json!({"history": h});
                rep.sample(s);
            }
        }
        r.map(|_| ()).map_err(|(s, d)| format!("{}|{}", s, d))
    });
    drop(rep_cell);
    if let Some((msg, h)) = found {
        let (sig, detail) = msg.split_once('|').map(|(a, b)| (a.to_string(), b.to_string())).unwrap_or(("c09".into(), msg.clone()));
        rep.violation(&sig, detail, json!({"history": h}));
    }
    if rep.samples.is_empty() {
        rep.sample(json!({"note": "histories of 1-25 steps + final forced maintenance; see labels"}));
    }
    rep
}
