//! fsshim: in-binary libc interposition.
//!
//! The functions marked `#[no_mangle] extern "C"` below take precedence over
//! libc's at link time, so every filesystem call made by std, `filetime`,
//! `tempfile` and therefore by Kismet lands here first.  They are pure
//! pass-through unless the calling thread joined a [`World`]; inside a world a
//! call on a path under one of the world's roots (or on a descriptor opened
//! there) can be traced, scheduled, failed, used as a kill point, or have its
//! timestamps emulated.  The real function is reached with
//! `dlsym(RTLD_NEXT, ..)`.
#![allow(clippy::missing_safety_doc)]

use libc::{c_char, c_int, c_long, c_uint, c_void, mode_t, off64_t, size_t, ssize_t};
use serde::Serialize;
use std::cell::{Cell, RefCell};
use std::collections::HashMap;
use std::ffi::CStr;
use std::sync::atomic::{AtomicUsize, Ordering};
use std::sync::{Arc, Condvar, Mutex};

// ------------------------------------------------------------------ events

#[derive(Clone, Copy, Debug, PartialEq, Eq, Serialize)]
pub enum Class {
    /// Calls that name a path (open, stat, chmod, rename, link, unlink, mkdir, opendir...).
    Path,
    /// Calls on a descriptor / directory stream that are not data transfer.
    Meta,
    /// read / write / lseek / copy_file_range / ftruncate / close.
    Data,
}

#[derive(Clone, Debug, Serialize)]
pub struct ListEnt {
    pub name: String,
    pub is_dir: bool,
    pub mtime: i128,
    pub atime: i128,
    pub ino: u64,
}

#[derive(Clone, Debug, Serialize)]
pub struct Event {
    pub seq: u64,
    pub tid: usize,
    pub op: u32,
    /// index of this call among the traced calls of the current operation of this thread
    pub idx: u32,
    pub call: &'static str,
    pub class: Class,
    pub path: String,
    pub path2: String,
    pub fd: i32,
    /// open flags, mode, whence... depending on call
    pub arg: i64,
    pub ret: i64,
    pub errno: i32,
    /// inode the call acted on (0 if unknown / failed)
    pub ino: u64,
    /// for rename/link: inode previously at the destination (0 if none)
    pub ino2: u64,
    pub injected: bool,
    /// futimens/utimensat: (atime, mtime) as (sec, nsec); nsec may be UTIME_OMIT/UTIME_NOW
    pub times: Option<[(i64, i64); 2]>,
    /// opendir: the directory's content at that instant
    pub listing: Option<Vec<ListEnt>>,
}

impl Event {
    pub fn ok(&self) -> bool {
        self.ret >= 0 && !self.injected
    }
    pub fn short(&self) -> String {
        let mut s = format!("t{} {}", self.tid, self.call);
        if !self.path.is_empty() {
            s.push(' ');
            s.push_str(&self.path);
        } else if self.fd >= 0 {
            s.push_str(&format!(" fd{}", self.fd));
        }
        if !self.path2.is_empty() {
            s.push_str(" -> ");
            s.push_str(&self.path2);
        }
        if self.ret < 0 {
            s.push_str(&format!(" = -1 errno {}{}", self.errno, if self.injected { " (injected)" } else { "" }));
        }
        s
    }
}

#[derive(Clone, Debug)]
pub struct FdInfo {
    pub path: String,
    pub ino: u64,
    pub flags: i32,
    pub is_dir: bool,
    pub read_once: bool,
}

#[derive(Clone, Copy, Debug, PartialEq, Eq, Serialize)]
pub enum AtimePolicy {
    Strict,
    Relatime,
    Noatime,
}

#[derive(Clone, Copy, Debug, Serialize)]
pub struct Emu {
    pub policy: AtimePolicy,
    pub gran_ns: i64,
}

#[derive(Clone, Copy, Debug, PartialEq, Eq)]
pub enum Fault {
    None,
    /// fail traced call number k of the current operation with this errno
    Inject(u32, i32),
    /// `_exit(99)` immediately before traced call number k
    Kill(u32),
    /// run the registered action (a "peer") immediately before traced call number k, then proceed
    Action(u32),
    /// traced call number k, if it is a write / copy_file_range, transfers only part of what was
    /// asked (a short count, as under ENOSPC, quotas or RLIMIT_FSIZE) and reports that count
    Short(u32),
}

#[derive(Default)]
pub struct Inner {
    pub events: Vec<Event>,
    pub seq: u64,
    pub fds: HashMap<i32, FdInfo>,
    pub dirs: HashMap<usize, (String, i32)>,
}

pub struct SchedState {
    /// per participant: None = running or not yet arrived; Some(desc) = waiting at a yield point
    pub waiting: Vec<Option<String>>,
    pub done: Vec<bool>,
    pub turn: Option<usize>,
    pub steps: u64,
    pub picks: Vec<usize>,
    pub last: Option<usize>,
    #[allow(clippy::type_complexity)]
    pub decide: Option<Box<dyn FnMut(&SchedView) -> usize + Send>>,
}

/// What a scheduling strategy sees when asked to pick the next participant.
pub struct SchedView<'a> {
    pub step: u64,
    /// participants that are alive (all of them are waiting at a yield point)
    pub runnable: Vec<usize>,
    /// description of the call each participant is about to make
    pub pending: &'a [Option<String>],
    /// participant that ran last
    pub last: Option<usize>,
}

pub struct World {
    pub roots: Vec<String>,
    pub trace: bool,
    pub capture_listings: bool,
    pub yield_data: bool,
    pub emu: Option<Emu>,
    pub inner: Mutex<Inner>,
    pub sched: Mutex<SchedState>,
    pub cv: Condvar,
    pub scheduling: bool,
    /// virtual CLOCK_REALTIME in ns (0 = use the real clock)
    pub vclock: Mutex<i128>,
    /// emulate a filesystem without hard links: every link/linkat under the roots fails with this errno
    pub deny_link: i32,
}

#[derive(Default)]
pub struct WorldCfg {
    pub roots: Vec<String>,
    pub trace: bool,
    pub capture_listings: bool,
    pub yield_data: bool,
    pub emu: Option<Emu>,
    pub participants: usize,
    pub vclock: i128,
    pub deny_link: i32,
}

impl World {
    pub fn new(cfg: WorldCfg) -> Arc<World> {
        Arc::new(World {
            roots: cfg.roots,
            trace: cfg.trace,
            capture_listings: cfg.capture_listings,
            yield_data: cfg.yield_data,
            emu: cfg.emu,
            inner: Mutex::new(Inner::default()),
            sched: Mutex::new(SchedState {
                waiting: vec![None; cfg.participants],
                done: vec![false; cfg.participants],
                turn: None,
                steps: 0,
                picks: Vec::new(),
                last: None,
                decide: None,
            }),
            cv: Condvar::new(),
            scheduling: cfg.participants > 0,
            vclock: Mutex::new(cfg.vclock),
            deny_link: cfg.deny_link,
        })
    }

    pub fn set_decide(&self, f: Box<dyn FnMut(&SchedView) -> usize + Send>) {
        self.sched.lock().unwrap().decide = Some(f);
    }

    pub fn take_events(&self) -> Vec<Event> {
        std::mem::take(&mut self.inner.lock().unwrap().events)
    }

    pub fn events_len(&self) -> usize {
        self.inner.lock().unwrap().events.len()
    }

    pub fn open_fds(&self) -> Vec<(i32, FdInfo)> {
        let inner = self.inner.lock().unwrap();
        let mut v: Vec<_> = inner.fds.iter().map(|(k, v)| (*k, v.clone())).collect();
        v.sort_by_key(|x| x.0);
        v
    }

    pub fn set_clock(&self, ns: i128) {
        *self.vclock.lock().unwrap() = ns;
    }

    pub fn advance_clock(&self, ns: i128) {
        let mut c = self.vclock.lock().unwrap();
        if *c != 0 {
            *c += ns;
        }
    }

    pub fn clock(&self) -> i128 {
        *self.vclock.lock().unwrap()
    }

    pub fn next_seq(&self) -> u64 {
        let mut inner = self.inner.lock().unwrap();
        inner.seq += 1;
        inner.seq
    }

    pub fn picks(&self) -> Vec<usize> {
        self.sched.lock().unwrap().picks.clone()
    }

    fn relevant_path(&self, p: &str) -> bool {
        self.roots.iter().any(|r| p.starts_with(r.as_str()))
    }

    fn run_decide(&self, s: &mut SchedState) {
        let runnable: Vec<usize> = (0..s.done.len()).filter(|&i| !s.done[i]).collect();
        if runnable.is_empty() {
            return;
        }
        let mut decide = s.decide.take();
        // the strategy (and its monitors) may touch the filesystem: never intercept that
        let was_busy = TL.try_with(|t| t.busy.replace(true)).unwrap_or(true);
        let pick = {
            let view = SchedView { step: s.steps, runnable: runnable.clone(), pending: &s.waiting, last: s.last };
            match decide.as_mut() {
                Some(f) => f(&view),
                None => runnable[0],
            }
        };
        let _ = TL.try_with(|t| t.busy.set(was_busy));
        s.decide = decide;
        let pick = if runnable.contains(&pick) { pick } else { runnable[0] };
        s.picks.push(pick);
        s.turn = Some(pick);
        s.last = Some(pick);
        s.steps += 1;
    }

    /// Blocks the calling participant until the strategy picks it.
    pub fn yield_point(&self, tid: usize, desc: String) {
        let mut s = self.sched.lock().unwrap();
        s.waiting[tid] = Some(desc);
        let all_waiting = (0..s.done.len()).all(|i| s.done[i] || s.waiting[i].is_some());
        if all_waiting && s.turn.is_none() {
            self.run_decide(&mut s);
            self.cv.notify_all();
        }
        while s.turn != Some(tid) {
            s = self.cv.wait(s).unwrap();
        }
        s.turn = None;
        s.waiting[tid] = None;
    }

    pub fn participant_done(&self, tid: usize) {
        let mut s = self.sched.lock().unwrap();
        s.done[tid] = true;
        s.waiting[tid] = None;
        let all_waiting = (0..s.done.len()).all(|i| s.done[i] || s.waiting[i].is_some());
        if all_waiting && s.turn.is_none() {
            self.run_decide(&mut s);
        }
        self.cv.notify_all();
    }
}

// ------------------------------------------------------------ thread state

struct Tl {
    world: RefCell<Option<Arc<World>>>,
    tid: Cell<usize>,
    busy: Cell<bool>,
    op: Cell<u32>,
    idx: Cell<u32>,
    steps: Cell<u32>,
    fault: Cell<Fault>,
    fault_hit: Cell<bool>,
    app: Cell<bool>,
    budget: Cell<u32>,
    over_budget: Cell<bool>,
    short_next: Cell<bool>,
}

thread_local! {
    static TL: Tl = const { Tl {
        world: RefCell::new(None), tid: Cell::new(0), busy: Cell::new(false), op: Cell::new(0),
        idx: Cell::new(0), steps: Cell::new(0), fault: Cell::new(Fault::None), fault_hit: Cell::new(false), app: Cell::new(false), budget: Cell::new(0), over_budget: Cell::new(false), short_next: Cell::new(false),
    } };
}

thread_local! {
    #[allow(clippy::type_complexity)]
    static ACTION: RefCell<Option<Box<dyn FnMut()>>> = const { RefCell::new(None) };
}

/// Registers the action run by `Fault::Action(k)` (with interposition disabled while it runs).
pub fn set_action(f: Option<Box<dyn FnMut()>>) {
    ACTION.with(|a| *a.borrow_mut() = f);
}

/// Makes the calling thread a participant of `world`.
pub fn enter_world(world: &Arc<World>, tid: usize) {
    TL.with(|t| {
        *t.world.borrow_mut() = Some(world.clone());
        t.tid.set(tid);
        t.op.set(0);
        t.idx.set(0);
        t.steps.set(0);
        t.fault.set(Fault::None);
        t.fault_hit.set(false);
    });
}

pub fn leave_world() {
    let _ = TL.try_with(|t| {
        *t.world.borrow_mut() = None;
    });
}

pub fn current_world() -> Option<Arc<World>> {
    TL.try_with(|t| t.world.borrow().clone()).ok().flatten()
}

/// Starts a new operation: resets the per-operation call index and step count.
pub fn begin_op(op: u32) {
    TL.with(|t| {
        t.op.set(op);
        t.idx.set(0);
        t.steps.set(0);
        t.fault_hit.set(false);
    });
}

pub fn set_fault(f: Fault) {
    TL.with(|t| {
        t.fault.set(f);
        t.fault_hit.set(false);
    });
}

pub fn fault_was_hit() -> bool {
    TL.with(|t| t.fault_hit.get())
}

/// Step budget for the current operation (0 = unlimited). Once exceeded, every further call of
/// the operation fails with EIO so that an unbounded retry loop terminates, and the overrun is
/// remembered (`budget_exceeded`).
pub fn set_step_budget(b: u32) {
    TL.with(|t| {
        t.budget.set(b);
        t.over_budget.set(false);
    });
}

pub fn budget_exceeded() -> bool {
    TL.with(|t| t.over_budget.get())
}

pub fn op_calls() -> u32 {
    TL.with(|t| t.idx.get())
}

pub fn op_steps() -> u32 {
    TL.with(|t| t.steps.get())
}

/// Runs `f` with interposition disabled for this thread (harness bookkeeping).
pub fn bypass<R>(f: impl FnOnce() -> R) -> R {
    let prev = TL.with(|t| t.busy.replace(true));
    let r = f();
    TL.with(|t| t.busy.set(prev));
    r
}

/// Runs `f` as application code: its calls are still traced (with idx = u32::MAX), scheduled and
/// emulated, but they are not counted as calls of the library operation and never faulted.
pub fn app_phase<R>(f: impl FnOnce() -> R) -> R {
    let prev = TL.with(|t| t.app.replace(true));
    let r = f();
    TL.with(|t| t.app.set(prev));
    r
}

/// Explicit scheduling point (operation boundaries).
pub fn yield_now(desc: &str) {
    if let Some(w) = current_world() {
        if w.scheduling {
            let tid = TL.with(|t| t.tid.get());
            let prev = TL.with(|t| t.busy.replace(true));
            w.yield_point(tid, desc.to_string());
            TL.with(|t| t.busy.set(prev));
        }
    }
}

// ------------------------------------------------------------- real symbols

macro_rules! real {
    ($name:literal, $ty:ty) => {{
        static P: AtomicUsize = AtomicUsize::new(0);
        let mut p = P.load(Ordering::Relaxed);
        if p == 0 {
            p = libc::dlsym(libc::RTLD_NEXT, concat!($name, "\0").as_ptr() as *const c_char) as usize;
            if p == 0 {
                libc::abort();
            }
            P.store(p, Ordering::Relaxed);
        }
        std::mem::transmute::<usize, $ty>(p)
    }};
}

unsafe fn cs(p: *const c_char) -> String {
    if p.is_null() {
        String::new()
    } else {
        CStr::from_ptr(p).to_string_lossy().into_owned()
    }
}

fn errno() -> i32 {
    unsafe { *libc::__errno_location() }
}
fn set_errno(e: i32) {
    unsafe { *libc::__errno_location() = e }
}

fn lstat_ino(path: &str) -> (u64, u32) {
    let c = match std::ffi::CString::new(path) {
        Ok(c) => c,
        Err(_) => return (0, 0),
    };
    let mut st: libc::stat = unsafe { std::mem::zeroed() };
    let e = errno();
    let r = unsafe { libc::lstat(c.as_ptr(), &mut st) };
    set_errno(e);
    if r == 0 {
        (st.st_ino, st.st_mode)
    } else {
        (0, 0)
    }
}

fn fstat_info(fd: i32) -> (u64, bool) {
    let mut st: libc::stat = unsafe { std::mem::zeroed() };
    let e = errno();
    let r = unsafe { real!("fstat", unsafe extern "C" fn(c_int, *mut libc::stat) -> c_int)(fd, &mut st) };
    set_errno(e);
    if r == 0 {
        (st.st_ino, (st.st_mode & libc::S_IFMT) == libc::S_IFDIR)
    } else {
        (0, false)
    }
}

fn ts_ns(sec: i64, nsec: i64) -> i128 {
    sec as i128 * 1_000_000_000 + nsec as i128
}

fn capture_listing(path: &str) -> Vec<ListEnt> {
    let mut out = Vec::new();
    let c = match std::ffi::CString::new(path) {
        Ok(c) => c,
        Err(_) => return out,
    };
    unsafe {
        let e = errno();
        let d = real!("opendir", unsafe extern "C" fn(*const c_char) -> *mut libc::DIR)(c.as_ptr());
        if !d.is_null() {
            let fd = libc::dirfd(d);
            loop {
                let ent = real!("readdir64", unsafe extern "C" fn(*mut libc::DIR) -> *mut libc::dirent64)(d);
                if ent.is_null() {
                    break;
                }
                let name = CStr::from_ptr((*ent).d_name.as_ptr()).to_string_lossy().into_owned();
                if name == "." || name == ".." {
                    continue;
                }
                let mut st: libc::stat = std::mem::zeroed();
                let cn = std::ffi::CString::new(name.clone()).unwrap();
                if real!("fstatat", unsafe extern "C" fn(c_int, *const c_char, *mut libc::stat, c_int) -> c_int)(fd, cn.as_ptr(), &mut st, libc::AT_SYMLINK_NOFOLLOW) == 0 {
                    out.push(ListEnt {
                        name,
                        is_dir: (st.st_mode & libc::S_IFMT) == libc::S_IFDIR,
                        mtime: ts_ns(st.st_mtime, st.st_mtime_nsec),
                        atime: ts_ns(st.st_atime, st.st_atime_nsec),
                        ino: st.st_ino,
                    });
                }
            }
            real!("closedir", unsafe extern "C" fn(*mut libc::DIR) -> c_int)(d);
        }
        set_errno(e);
    }
    out.sort_by(|a, b| a.name.cmp(&b.name));
    out
}

// --------------------------------------------------------------- the hook

struct Desc {
    call: &'static str,
    class: Class,
    path: String,
    path2: String,
    fd: i32,
    arg: i64,
    ino: u64,
    ino2: u64,
    times: Option<[(i64, i64); 2]>,
}

impl Desc {
    fn new(call: &'static str, class: Class) -> Desc {
        Desc { call, class, path: String::new(), path2: String::new(), fd: -1, arg: 0, ino: 0, ino2: 0, times: None }
    }
}

enum Outcome {
    /// not in a world / not relevant: call the real thing, record nothing
    Pass,
    /// go ahead; record afterwards
    Go(Arc<World>, Desc, u32),
    /// fail with errno without executing (close: executes anyway)
    Fail(Arc<World>, Desc, u32, i32),
}

/// Common prologue. `describe` returns None when the call does not concern the world.
fn prologue(describe: impl FnOnce(&World) -> Option<Desc>) -> Outcome {
    let w = match TL.try_with(|t| if t.busy.get() { None } else { t.world.borrow().clone() }) {
        Ok(Some(w)) => w,
        _ => return Outcome::Pass,
    };
    TL.with(|t| t.busy.set(true));
    let desc = match describe(&w) {
        Some(d) => d,
        None => {
            TL.with(|t| t.busy.set(false));
            return Outcome::Pass;
        }
    };
    let (tid, idx, fault) = TL.with(|t| {
        if t.app.get() {
            return (t.tid.get(), u32::MAX, Fault::None);
        }
        let idx = t.idx.get();
        t.idx.set(idx + 1);
        if desc.class != Class::Data {
            t.steps.set(t.steps.get() + 1);
        }
        let mut fault = t.fault.get();
        if t.budget.get() > 0 && t.steps.get() > t.budget.get() {
            t.over_budget.set(true);
            fault = Fault::Inject(idx, libc::EIO);
        }
        (t.tid.get(), idx, fault)
    });
    if w.scheduling && (desc.class != Class::Data || w.yield_data) {
        let mut d = format!("{} {}", desc.call, if desc.path.is_empty() { format!("fd{}", desc.fd) } else { desc.path.clone() });
        if !desc.path2.is_empty() {
            d.push_str(" -> ");
            d.push_str(&desc.path2);
        }
        w.yield_point(tid, d);
    }
    let mut desc = desc;
    if w.scheduling && matches!(desc.call, "unlink" | "chmod" | "rename" | "link" | "rmdir" | "utimensat") {
        // peers ran while this call was pending: refresh the identity of what it acts on
        let (i, m) = lstat_ino(&desc.path);
        desc.ino = i;
        if matches!(desc.call, "rename" | "link") {
            desc.arg = m as i64;
        }
        if !desc.path2.is_empty() {
            desc.ino2 = lstat_ino(&desc.path2).0;
        }
    }
    match fault {
        Fault::Kill(k) if k == idx => unsafe { libc::_exit(99) },
        Fault::Inject(k, e) if k == idx => {
            TL.with(|t| t.fault_hit.set(true));
            Outcome::Fail(w, desc, idx, e)
        }
        Fault::Short(k) if k == idx => {
            TL.with(|t| {
                t.fault_hit.set(true);
                t.short_next.set(true);
            });
            Outcome::Go(w, desc, idx)
        }
        Fault::Action(k) if k == idx => {
            TL.with(|t| t.fault_hit.set(true));
            let f = ACTION.with(|a| a.borrow_mut().take());
            if let Some(mut f) = f {
                f();
                ACTION.with(|a| *a.borrow_mut() = Some(f));
            }
            // the action may have changed what the pending call is about to act on
            let mut desc = desc;
            if matches!(desc.call, "unlink" | "chmod" | "rename" | "link" | "rmdir" | "utimensat") {
                desc.ino = lstat_ino(&desc.path).0;
                if !desc.path2.is_empty() {
                    desc.ino2 = lstat_ino(&desc.path2).0;
                }
            }
            Outcome::Go(w, desc, idx)
        }
        _ => Outcome::Go(w, desc, idx),
    }
}

fn epilogue(w: &Arc<World>, desc: Desc, idx: u32, ret: i64, err: i32, injected: bool, listing: Option<Vec<ListEnt>>) {
    if w.trace {
        let (tid, op) = TL.with(|t| (t.tid.get(), t.op.get()));
        let mut inner = w.inner.lock().unwrap();
        inner.seq += 1;
        let seq = inner.seq;
        inner.events.push(Event {
            seq,
            tid,
            op,
            idx,
            call: desc.call,
            class: desc.class,
            path: desc.path,
            path2: desc.path2,
            fd: desc.fd,
            arg: desc.arg,
            ret,
            errno: if ret < 0 { err } else { 0 },
            ino: desc.ino,
            ino2: desc.ino2,
            injected,
            times: desc.times,
            listing,
        });
    }
    TL.with(|t| t.busy.set(false));
    set_errno(err);
}

fn fd_desc(w: &World, fd: i32, call: &'static str, class: Class) -> Option<Desc> {
    let inner = w.inner.lock().unwrap();
    let info = inner.fds.get(&fd)?;
    let mut d = Desc::new(call, class);
    d.fd = fd;
    d.path = info.path.clone();
    d.ino = info.ino;
    Some(d)
}

fn resolve_at(w: &World, dirfd: c_int, path: &str) -> Option<String> {
    if path.starts_with('/') {
        return Some(path.to_string());
    }
    if dirfd == libc::AT_FDCWD {
        return None;
    }
    let inner = w.inner.lock().unwrap();
    let info = inner.fds.get(&dirfd)?;
    if path.is_empty() {
        Some(info.path.clone())
    } else {
        Some(format!("{}/{}", info.path, path))
    }
}

fn vnow(w: &World) -> Option<i128> {
    let c = *w.vclock.lock().unwrap();
    if c != 0 {
        Some(c)
    } else {
        None
    }
}

fn real_now_ns() -> i128 {
    let mut ts: libc::timespec = unsafe { std::mem::zeroed() };
    unsafe {
        real!("clock_gettime", unsafe extern "C" fn(libc::clockid_t, *mut libc::timespec) -> c_int)(libc::CLOCK_REALTIME, &mut ts);
    }
    ts_ns(ts.tv_sec, ts.tv_nsec)
}

fn trunc(ns: i128, gran: i64) -> i128 {
    if gran <= 1 {
        ns
    } else {
        ns - ns.rem_euclid(gran as i128)
    }
}

fn to_ts(ns: i128) -> libc::timespec {
    libc::timespec { tv_sec: ns.div_euclid(1_000_000_000) as i64, tv_nsec: ns.rem_euclid(1_000_000_000) as i64 }
}

// ------------------------------------------------------------ interposers

type OpenFn = unsafe extern "C" fn(*const c_char, c_int, mode_t) -> c_int;

unsafe fn open_common(name: &'static str, real: OpenFn, p: *const c_char, mut flags: c_int, mode: mode_t) -> c_int {
    let path = cs(p);
    match prologue(|w| {
        if !w.relevant_path(&path) {
            return None;
        }
        let mut d = Desc::new(name, Class::Path);
        d.path = path.clone();
        d.arg = flags as i64;
        Some(d)
    }) {
        Outcome::Pass => real(p, flags, mode),
        Outcome::Fail(w, d, idx, e) => {
            epilogue(&w, d, idx, -1, e, true, None);
            -1
        }
        Outcome::Go(w, mut d, idx) => {
            if w.emu.is_some() {
                flags |= libc::O_NOATIME;
            }
            let mut r = real(p, flags, mode);
            let mut e = errno();
            if r < 0 && e == libc::EPERM && w.emu.is_some() {
                flags &= !libc::O_NOATIME;
                r = real(p, flags, mode);
                e = errno();
            }
            if r >= 0 {
                let (ino, is_dir) = fstat_info(r);
                d.ino = ino;
                d.fd = r;
                w.inner.lock().unwrap().fds.insert(r, FdInfo { path: path.clone(), ino, flags, is_dir, read_once: false });
            }
            epilogue(&w, d, idx, r as i64, e, false, None);
            r
        }
    }
}

#[no_mangle]
pub unsafe extern "C" fn open64(p: *const c_char, flags: c_int, mode: mode_t) -> c_int {
    open_common("open", real!("open64", OpenFn), p, flags, mode)
}

#[no_mangle]
pub unsafe extern "C" fn open(p: *const c_char, flags: c_int, mode: mode_t) -> c_int {
    open_common("open", real!("open", OpenFn), p, flags, mode)
}

type OpenatFn = unsafe extern "C" fn(c_int, *const c_char, c_int, mode_t) -> c_int;

unsafe fn openat_common(real: OpenatFn, dirfd: c_int, p: *const c_char, flags: c_int, mode: mode_t) -> c_int {
    let rel = cs(p);
    let mut full = String::new();
    match prologue(|w| {
        let path = resolve_at(w, dirfd, &rel)?;
        if !w.relevant_path(&path) {
            return None;
        }
        full = path.clone();
        let mut d = Desc::new("open", Class::Path);
        d.path = path;
        d.arg = flags as i64;
        Some(d)
    }) {
        Outcome::Pass => real(dirfd, p, flags, mode),
        Outcome::Fail(w, d, idx, e) => {
            epilogue(&w, d, idx, -1, e, true, None);
            -1
        }
        Outcome::Go(w, mut d, idx) => {
            // same emulated-atime treatment as `open_common`: the kernel's own atime updates are
            // switched off and the configured policy is applied by the interposer instead
            let mut flags = flags;
            if w.emu.is_some() {
                flags |= libc::O_NOATIME;
            }
            let mut r = real(dirfd, p, flags, mode);
            let mut e = errno();
            if r < 0 && e == libc::EPERM && w.emu.is_some() {
                flags &= !libc::O_NOATIME;
                r = real(dirfd, p, flags, mode);
                e = errno();
            }
            if r >= 0 {
                let (ino, is_dir) = fstat_info(r);
                d.ino = ino;
                d.fd = r;
                w.inner.lock().unwrap().fds.insert(r, FdInfo { path: full.clone(), ino, flags, is_dir, read_once: false });
            }
            epilogue(&w, d, idx, r as i64, e, false, None);
            r
        }
    }
}

#[no_mangle]
pub unsafe extern "C" fn openat64(dirfd: c_int, p: *const c_char, flags: c_int, mode: mode_t) -> c_int {
    openat_common(real!("openat64", OpenatFn), dirfd, p, flags, mode)
}

#[no_mangle]
pub unsafe extern "C" fn openat(dirfd: c_int, p: *const c_char, flags: c_int, mode: mode_t) -> c_int {
    openat_common(real!("openat", OpenatFn), dirfd, p, flags, mode)
}

#[no_mangle]
pub unsafe extern "C" fn close(fd: c_int) -> c_int {
    let real = real!("close", unsafe extern "C" fn(c_int) -> c_int);
    match prologue(|w| fd_desc(w, fd, "close", Class::Data)) {
        Outcome::Pass => real(fd),
        Outcome::Fail(w, d, idx, e) => {
            // Linux semantics: the descriptor is gone even when close reports an error.
            real(fd);
            w.inner.lock().unwrap().fds.remove(&fd);
            epilogue(&w, d, idx, -1, e, true, None);
            -1
        }
        Outcome::Go(w, d, idx) => {
            let r = real(fd);
            let e = errno();
            w.inner.lock().unwrap().fds.remove(&fd);
            epilogue(&w, d, idx, r as i64, e, false, None);
            r
        }
    }
}

fn apply_atime_policy(w: &World, fd: c_int) {
    let emu = match w.emu {
        Some(e) => e,
        None => return,
    };
    let first = {
        let mut inner = w.inner.lock().unwrap();
        match inner.fds.get_mut(&fd) {
            Some(info) if !info.read_once && !info.is_dir => {
                info.read_once = true;
                true
            }
            _ => false,
        }
    };
    if !first || emu.policy == AtimePolicy::Noatime {
        return;
    }
    let mut st: libc::stat = unsafe { std::mem::zeroed() };
    if unsafe { real!("fstat", unsafe extern "C" fn(c_int, *mut libc::stat) -> c_int)(fd, &mut st) } != 0 {
        return;
    }
    let at = ts_ns(st.st_atime, st.st_atime_nsec);
    let mt = ts_ns(st.st_mtime, st.st_mtime_nsec);
    if emu.policy == AtimePolicy::Strict || at <= mt {
        let now = trunc(vnow(w).unwrap_or_else(real_now_ns), emu.gran_ns);
        let times = [to_ts(now), libc::timespec { tv_sec: 0, tv_nsec: libc::UTIME_OMIT }];
        unsafe {
            real!("futimens", unsafe extern "C" fn(c_int, *const libc::timespec) -> c_int)(fd, times.as_ptr());
        }
    }
}

#[no_mangle]
pub unsafe extern "C" fn read(fd: c_int, buf: *mut c_void, n: size_t) -> ssize_t {
    let real = real!("read", unsafe extern "C" fn(c_int, *mut c_void, size_t) -> ssize_t);
    match prologue(|w| {
        let mut d = fd_desc(w, fd, "read", Class::Data)?;
        d.arg = n as i64;
        Some(d)
    }) {
        Outcome::Pass => real(fd, buf, n),
        Outcome::Fail(w, d, idx, e) => {
            epilogue(&w, d, idx, -1, e, true, None);
            -1
        }
        Outcome::Go(w, d, idx) => {
            let r = real(fd, buf, n);
            let e = errno();
            if r > 0 {
                apply_atime_policy(&w, fd);
            }
            epilogue(&w, d, idx, r as i64, e, false, None);
            r
        }
    }
}

#[no_mangle]
pub unsafe extern "C" fn write(fd: c_int, buf: *const c_void, n: size_t) -> ssize_t {
    let real = real!("write", unsafe extern "C" fn(c_int, *const c_void, size_t) -> ssize_t);
    match prologue(|w| {
        let mut d = fd_desc(w, fd, "write", Class::Data)?;
        d.arg = n as i64;
        Some(d)
    }) {
        Outcome::Pass => real(fd, buf, n),
        Outcome::Fail(w, d, idx, e) => {
            epilogue(&w, d, idx, -1, e, true, None);
            -1
        }
        Outcome::Go(w, d, idx) => {
            let short = TL.with(|t| t.short_next.replace(false));
            let r = real(fd, buf, if short && n > 1 { n / 2 } else { n });
            let e = errno();
            epilogue(&w, d, idx, r as i64, e, false, None);
            r
        }
    }
}

#[no_mangle]
pub unsafe extern "C" fn lseek64(fd: c_int, off: off64_t, whence: c_int) -> off64_t {
    let real = real!("lseek64", unsafe extern "C" fn(c_int, off64_t, c_int) -> off64_t);
    match prologue(|w| {
        let mut d = fd_desc(w, fd, "lseek", Class::Data)?;
        d.arg = whence as i64;
        Some(d)
    }) {
        Outcome::Pass => real(fd, off, whence),
        Outcome::Fail(w, d, idx, e) => {
            epilogue(&w, d, idx, -1, e, true, None);
            -1
        }
        Outcome::Go(w, d, idx) => {
            let r = real(fd, off, whence);
            let e = errno();
            epilogue(&w, d, idx, r, e, false, None);
            r
        }
    }
}

#[no_mangle]
pub unsafe extern "C" fn lseek(fd: c_int, off: off64_t, whence: c_int) -> off64_t {
    lseek64(fd, off, whence)
}

#[no_mangle]
pub unsafe extern "C" fn ftruncate64(fd: c_int, len: off64_t) -> c_int {
    let real = real!("ftruncate64", unsafe extern "C" fn(c_int, off64_t) -> c_int);
    match prologue(|w| {
        let mut d = fd_desc(w, fd, "ftruncate", Class::Data)?;
        d.arg = len;
        Some(d)
    }) {
        Outcome::Pass => real(fd, len),
        Outcome::Fail(w, d, idx, e) => {
            epilogue(&w, d, idx, -1, e, true, None);
            -1
        }
        Outcome::Go(w, d, idx) => {
            let r = real(fd, len);
            let e = errno();
            epilogue(&w, d, idx, r as i64, e, false, None);
            r
        }
    }
}

#[no_mangle]
pub unsafe extern "C" fn ftruncate(fd: c_int, len: off64_t) -> c_int {
    ftruncate64(fd, len)
}

#[no_mangle]
pub unsafe extern "C" fn copy_file_range(fd_in: c_int, off_in: *mut off64_t, fd_out: c_int, off_out: *mut off64_t, len: size_t, flags: c_uint) -> ssize_t {
    let real = real!("copy_file_range", unsafe extern "C" fn(c_int, *mut off64_t, c_int, *mut off64_t, size_t, c_uint) -> ssize_t);
    match prologue(|w| {
        // described from the destination's point of view (it is the written inode)
        let src = fd_desc(w, fd_in, "copy_file_range", Class::Data);
        let dst = fd_desc(w, fd_out, "copy_file_range", Class::Data);
        match (src, dst) {
            (_, Some(mut d)) => {
                d.arg = len as i64;
                Some(d)
            }
            (Some(mut s), None) => {
                s.call = "copy_file_range_from";
                Some(s)
            }
            _ => None,
        }
    }) {
        Outcome::Pass => real(fd_in, off_in, fd_out, off_out, len, flags),
        Outcome::Fail(w, d, idx, e) => {
            epilogue(&w, d, idx, -1, e, true, None);
            -1
        }
        Outcome::Go(w, d, idx) => {
            let short = TL.with(|t| t.short_next.replace(false));
            let r = real(fd_in, off_in, fd_out, off_out, if short && len > 1 { (len / 2).min(4096) } else { len }, flags);
            let e = errno();
            if r > 0 {
                apply_atime_policy(&w, fd_in);
            }
            epilogue(&w, d, idx, r as i64, e, false, None);
            r
        }
    }
}

macro_rules! fd_call {
    ($name:ident, $sym:literal, $call:literal, $class:expr) => {
        #[no_mangle]
        pub unsafe extern "C" fn $name(fd: c_int) -> c_int {
            let real = real!($sym, unsafe extern "C" fn(c_int) -> c_int);
            match prologue(|w| {
                let mut d = fd_desc(w, fd, $call, $class)?;
                // arg = 1 marks a descriptor on a directory (a flush of a directory is not a flush of a value)
                d.arg = w.inner.lock().unwrap().fds.get(&fd).map(|i| i.is_dir as i64).unwrap_or(0);
                Some(d)
            }) {
                Outcome::Pass => real(fd),
                Outcome::Fail(w, d, idx, e) => {
                    epilogue(&w, d, idx, -1, e, true, None);
                    -1
                }
                Outcome::Go(w, d, idx) => {
                    let r = real(fd);
                    let e = errno();
                    epilogue(&w, d, idx, r as i64, e, false, None);
                    r
                }
            }
        }
    };
}

fd_call!(fsync, "fsync", "fsync", Class::Meta);
fd_call!(fdatasync, "fdatasync", "fsync", Class::Meta);

#[no_mangle]
pub unsafe extern "C" fn fchmod(fd: c_int, mode: mode_t) -> c_int {
    let real = real!("fchmod", unsafe extern "C" fn(c_int, mode_t) -> c_int);
    match prologue(|w| {
        let mut d = fd_desc(w, fd, "fchmod", Class::Meta)?;
        d.arg = mode as i64;
        Some(d)
    }) {
        Outcome::Pass => real(fd, mode),
        Outcome::Fail(w, d, idx, e) => {
            epilogue(&w, d, idx, -1, e, true, None);
            -1
        }
        Outcome::Go(w, d, idx) => {
            let r = real(fd, mode);
            let e = errno();
            epilogue(&w, d, idx, r as i64, e, false, None);
            r
        }
    }
}

#[no_mangle]
pub unsafe extern "C" fn flock(fd: c_int, op: c_int) -> c_int {
    let real = real!("flock", unsafe extern "C" fn(c_int, c_int) -> c_int);
    match prologue(|w| {
        let mut d = fd_desc(w, fd, "flock", Class::Meta)?;
        d.arg = op as i64;
        Some(d)
    }) {
        Outcome::Pass => real(fd, op),
        Outcome::Fail(w, d, idx, e) => {
            epilogue(&w, d, idx, -1, e, true, None);
            -1
        }
        Outcome::Go(w, d, idx) => {
            let r = real(fd, op);
            let e = errno();
            epilogue(&w, d, idx, r as i64, e, false, None);
            r
        }
    }
}

#[no_mangle]
pub unsafe extern "C" fn lockf(fd: c_int, cmd: c_int, len: libc::off_t) -> c_int {
    let real = real!("lockf", unsafe extern "C" fn(c_int, c_int, libc::off_t) -> c_int);
    match prologue(|w| {
        let mut d = fd_desc(w, fd, "lockf", Class::Meta)?;
        d.arg = cmd as i64;
        Some(d)
    }) {
        Outcome::Pass => real(fd, cmd, len),
        Outcome::Fail(w, d, idx, e) => {
            epilogue(&w, d, idx, -1, e, true, None);
            -1
        }
        Outcome::Go(w, d, idx) => {
            let r = real(fd, cmd, len);
            let e = errno();
            epilogue(&w, d, idx, r as i64, e, false, None);
            r
        }
    }
}

/// fcntl is variadic; the third argument is passed through as a machine word.
/// Only locking commands and F_GETFL-style queries on world descriptors are traced; never failed.
#[no_mangle]
pub unsafe extern "C" fn fcntl(fd: c_int, cmd: c_int, arg: c_long) -> c_int {
    let real = real!("fcntl", unsafe extern "C" fn(c_int, c_int, c_long) -> c_int);
    let is_lock = matches!(cmd, libc::F_SETLK | libc::F_SETLKW | libc::F_GETLK | libc::F_OFD_SETLK | libc::F_OFD_SETLKW | libc::F_OFD_GETLK);
    if !is_lock {
        let r = real(fd, cmd, arg);
        if r >= 0 && (cmd == libc::F_DUPFD || cmd == libc::F_DUPFD_CLOEXEC) {
            // track duplicates of world descriptors
            if let Ok(Some(w)) = TL.try_with(|t| if t.busy.get() { None } else { t.world.borrow().clone() }) {
                let e = errno();
                TL.with(|t| t.busy.set(true));
                {
                    let mut inner = w.inner.lock().unwrap();
                    if let Some(info) = inner.fds.get(&fd).cloned() {
                        inner.fds.insert(r, info);
                    }
                }
                TL.with(|t| t.busy.set(false));
                set_errno(e);
            }
        }
        return r;
    }
    match prologue(|w| {
        let mut d = fd_desc(w, fd, "fcntl_lock", Class::Meta)?;
        d.arg = cmd as i64;
        Some(d)
    }) {
        Outcome::Pass => real(fd, cmd, arg),
        Outcome::Fail(w, d, idx, _) | Outcome::Go(w, d, idx) => {
            let r = real(fd, cmd, arg);
            let e = errno();
            epilogue(&w, d, idx, r as i64, e, false, None);
            r
        }
    }
}

#[no_mangle]
pub unsafe extern "C" fn fcntl64(fd: c_int, cmd: c_int, arg: c_long) -> c_int {
    fcntl(fd, cmd, arg)
}

unsafe fn read_times(w: &World, times: *const libc::timespec) -> ([libc::timespec; 2], [(i64, i64); 2]) {
    let gran = w.emu.map(|e| e.gran_ns).unwrap_or(1);
    let now = || trunc(vnow(w).unwrap_or_else(real_now_ns), gran);
    let mut out = [libc::timespec { tv_sec: 0, tv_nsec: libc::UTIME_NOW }; 2];
    if !times.is_null() {
        out[0] = *times;
        out[1] = *times.add(1);
    }
    let rec = [(out[0].tv_sec, out[0].tv_nsec), (out[1].tv_sec, out[1].tv_nsec)];
    if w.emu.is_some() || vnow(w).is_some() {
        for t in out.iter_mut() {
            if t.tv_nsec == libc::UTIME_OMIT {
                continue;
            }
            if t.tv_nsec == libc::UTIME_NOW {
                *t = to_ts(now());
            } else {
                *t = to_ts(trunc(ts_ns(t.tv_sec, t.tv_nsec), gran));
            }
        }
    }
    (out, rec)
}

#[no_mangle]
pub unsafe extern "C" fn futimens(fd: c_int, times: *const libc::timespec) -> c_int {
    let real = real!("futimens", unsafe extern "C" fn(c_int, *const libc::timespec) -> c_int);
    match prologue(|w| fd_desc(w, fd, "futimens", Class::Meta)) {
        Outcome::Pass => real(fd, times),
        Outcome::Fail(w, mut d, idx, e) => {
            let (_, rec) = read_times(&w, times);
            d.times = Some(rec);
            epilogue(&w, d, idx, -1, e, true, None);
            -1
        }
        Outcome::Go(w, mut d, idx) => {
            let (adj, rec) = read_times(&w, times);
            d.times = Some(rec);
            let r = real(fd, adj.as_ptr());
            let e = errno();
            epilogue(&w, d, idx, r as i64, e, false, None);
            r
        }
    }
}

#[no_mangle]
pub unsafe extern "C" fn utimensat(dirfd: c_int, p: *const c_char, times: *const libc::timespec, flags: c_int) -> c_int {
    let real = real!("utimensat", unsafe extern "C" fn(c_int, *const c_char, *const libc::timespec, c_int) -> c_int);
    let rel = cs(p);
    match prologue(|w| {
        let path = resolve_at(w, dirfd, &rel)?;
        if !w.relevant_path(&path) {
            return None;
        }
        let mut d = Desc::new("utimensat", Class::Path);
        d.ino = lstat_ino(&path).0;
        d.path = path;
        Some(d)
    }) {
        Outcome::Pass => real(dirfd, p, times, flags),
        Outcome::Fail(w, mut d, idx, e) => {
            let (_, rec) = read_times(&w, times);
            d.times = Some(rec);
            epilogue(&w, d, idx, -1, e, true, None);
            -1
        }
        Outcome::Go(w, mut d, idx) => {
            let (adj, rec) = read_times(&w, times);
            d.times = Some(rec);
            let r = real(dirfd, p, adj.as_ptr(), flags);
            let e = errno();
            epilogue(&w, d, idx, r as i64, e, false, None);
            r
        }
    }
}

#[no_mangle]
pub unsafe extern "C" fn statx(dirfd: c_int, p: *const c_char, flags: c_int, mask: c_uint, buf: *mut libc::statx) -> c_int {
    let real = real!("statx", unsafe extern "C" fn(c_int, *const c_char, c_int, c_uint, *mut libc::statx) -> c_int);
    let rel = cs(p);
    match prologue(|w| {
        let by_fd = rel.is_empty();
        let path = resolve_at(w, dirfd, &rel)?;
        if !w.relevant_path(&path) {
            return None;
        }
        let mut d = Desc::new(if by_fd { "fstat" } else { "stat" }, if by_fd { Class::Meta } else { Class::Path });
        if by_fd {
            d.fd = dirfd;
        }
        d.path = path;
        d.arg = flags as i64;
        Some(d)
    }) {
        Outcome::Pass => real(dirfd, p, flags, mask, buf),
        Outcome::Fail(w, d, idx, e) => {
            epilogue(&w, d, idx, -1, e, true, None);
            -1
        }
        Outcome::Go(w, mut d, idx) => {
            let r = real(dirfd, p, flags, mask, buf);
            let e = errno();
            if r == 0 && !buf.is_null() {
                d.ino = (*buf).stx_ino;
                if let Some(emu) = w.emu {
                    if emu.gran_ns > 1 {
                        for t in [&mut (*buf).stx_atime, &mut (*buf).stx_mtime] {
                            let ns = trunc(ts_ns(t.tv_sec, t.tv_nsec as i64), emu.gran_ns);
                            let ts = to_ts(ns);
                            t.tv_sec = ts.tv_sec;
                            t.tv_nsec = ts.tv_nsec as u32;
                        }
                    }
                }
            }
            epilogue(&w, d, idx, r as i64, e, false, None);
            r
        }
    }
}

/// Truncates the times of a `struct stat` to the emulated timestamp granularity (as `statx` above).
unsafe fn emu_stat_times(w: &World, buf: *mut libc::stat) {
    if let Some(emu) = w.emu {
        if emu.gran_ns > 1 {
            let a = to_ts(trunc(ts_ns((*buf).st_atime, (*buf).st_atime_nsec), emu.gran_ns));
            (*buf).st_atime = a.tv_sec;
            (*buf).st_atime_nsec = a.tv_nsec;
            let m = to_ts(trunc(ts_ns((*buf).st_mtime, (*buf).st_mtime_nsec), emu.gran_ns));
            (*buf).st_mtime = m.tv_sec;
            (*buf).st_mtime_nsec = m.tv_nsec;
        }
    }
}

macro_rules! fstatat_call {
    ($name:ident, $sym:literal) => {
        /// The pre-statx metadata call (a library that calls libc directly may use it); traced as "stat".
        #[no_mangle]
        pub unsafe extern "C" fn $name(dirfd: c_int, p: *const c_char, buf: *mut libc::stat, flags: c_int) -> c_int {
            let real = real!($sym, unsafe extern "C" fn(c_int, *const c_char, *mut libc::stat, c_int) -> c_int);
            let rel = cs(p);
            match prologue(|w| {
                let by_fd = rel.is_empty();
                let path = resolve_at(w, dirfd, &rel)?;
                if !w.relevant_path(&path) {
                    return None;
                }
                let mut d = Desc::new(if by_fd { "fstat" } else { "stat" }, if by_fd { Class::Meta } else { Class::Path });
                if by_fd {
                    d.fd = dirfd;
                }
                d.path = path;
                d.arg = flags as i64;
                Some(d)
            }) {
                Outcome::Pass => real(dirfd, p, buf, flags),
                Outcome::Fail(w, d, idx, e) => {
                    epilogue(&w, d, idx, -1, e, true, None);
                    -1
                }
                Outcome::Go(w, mut d, idx) => {
                    let r = real(dirfd, p, buf, flags);
                    let e = errno();
                    if r == 0 && !buf.is_null() {
                        d.ino = (*buf).st_ino;
                        emu_stat_times(&w, buf);
                    }
                    epilogue(&w, d, idx, r as i64, e, false, None);
                    r
                }
            }
        }
    };
}

fstatat_call!(fstatat, "fstatat");
fstatat_call!(fstatat64, "fstatat64");

macro_rules! fstat_call {
    ($name:ident, $sym:literal) => {
        #[no_mangle]
        pub unsafe extern "C" fn $name(fd: c_int, buf: *mut libc::stat) -> c_int {
            let real = real!($sym, unsafe extern "C" fn(c_int, *mut libc::stat) -> c_int);
            match prologue(|w| fd_desc(w, fd, "fstat", Class::Meta)) {
                Outcome::Pass => real(fd, buf),
                Outcome::Fail(w, d, idx, e) => {
                    epilogue(&w, d, idx, -1, e, true, None);
                    -1
                }
                Outcome::Go(w, d, idx) => {
                    let r = real(fd, buf);
                    let e = errno();
                    if r == 0 && !buf.is_null() {
                        emu_stat_times(&w, buf);
                    }
                    epilogue(&w, d, idx, r as i64, e, false, None);
                    r
                }
            }
        }
    };
}

fstat_call!(fstat, "fstat");
fstat_call!(fstat64, "fstat64");

macro_rules! path_mode_call {
    ($name:ident, $sym:literal, $call:literal) => {
        #[no_mangle]
        pub unsafe extern "C" fn $name(p: *const c_char, mode: mode_t) -> c_int {
            let real = real!($sym, unsafe extern "C" fn(*const c_char, mode_t) -> c_int);
            let path = cs(p);
            match prologue(|w| {
                if !w.relevant_path(&path) {
                    return None;
                }
                let mut d = Desc::new($call, Class::Path);
                d.ino = lstat_ino(&path).0;
                d.path = path.clone();
                d.arg = mode as i64;
                Some(d)
            }) {
                Outcome::Pass => real(p, mode),
                Outcome::Fail(w, d, idx, e) => {
                    epilogue(&w, d, idx, -1, e, true, None);
                    -1
                }
                Outcome::Go(w, d, idx) => {
                    let r = real(p, mode);
                    let e = errno();
                    epilogue(&w, d, idx, r as i64, e, false, None);
                    r
                }
            }
        }
    };
}

path_mode_call!(chmod, "chmod", "chmod");
path_mode_call!(mkdir, "mkdir", "mkdir");

#[no_mangle]
pub unsafe extern "C" fn fchmodat(dirfd: c_int, p: *const c_char, mode: mode_t, flags: c_int) -> c_int {
    let real = real!("fchmodat", unsafe extern "C" fn(c_int, *const c_char, mode_t, c_int) -> c_int);
    let rel = cs(p);
    match prologue(|w| {
        let path = resolve_at(w, dirfd, &rel)?;
        if !w.relevant_path(&path) {
            return None;
        }
        let mut d = Desc::new("chmod", Class::Path);
        d.ino = lstat_ino(&path).0;
        d.path = path;
        d.arg = mode as i64;
        Some(d)
    }) {
        Outcome::Pass => real(dirfd, p, mode, flags),
        Outcome::Fail(w, d, idx, e) => {
            epilogue(&w, d, idx, -1, e, true, None);
            -1
        }
        Outcome::Go(w, d, idx) => {
            let r = real(dirfd, p, mode, flags);
            let e = errno();
            epilogue(&w, d, idx, r as i64, e, false, None);
            r
        }
    }
}

macro_rules! path_call {
    ($name:ident, $sym:literal, $call:literal) => {
        #[no_mangle]
        pub unsafe extern "C" fn $name(p: *const c_char) -> c_int {
            let real = real!($sym, unsafe extern "C" fn(*const c_char) -> c_int);
            let path = cs(p);
            match prologue(|w| {
                if !w.relevant_path(&path) {
                    return None;
                }
                let mut d = Desc::new($call, Class::Path);
                d.ino = lstat_ino(&path).0;
                d.path = path.clone();
                Some(d)
            }) {
                Outcome::Pass => real(p),
                Outcome::Fail(w, d, idx, e) => {
                    epilogue(&w, d, idx, -1, e, true, None);
                    -1
                }
                Outcome::Go(w, d, idx) => {
                    let r = real(p);
                    let e = errno();
                    epilogue(&w, d, idx, r as i64, e, false, None);
                    r
                }
            }
        }
    };
}

path_call!(unlink, "unlink", "unlink");
path_call!(rmdir, "rmdir", "rmdir");

#[no_mangle]
pub unsafe extern "C" fn unlinkat(dirfd: c_int, p: *const c_char, flags: c_int) -> c_int {
    let real = real!("unlinkat", unsafe extern "C" fn(c_int, *const c_char, c_int) -> c_int);
    let rel = cs(p);
    match prologue(|w| {
        let path = resolve_at(w, dirfd, &rel)?;
        if !w.relevant_path(&path) {
            return None;
        }
        let mut d = Desc::new(if flags & libc::AT_REMOVEDIR != 0 { "rmdir" } else { "unlink" }, Class::Path);
        d.ino = lstat_ino(&path).0;
        d.path = path;
        Some(d)
    }) {
        Outcome::Pass => real(dirfd, p, flags),
        Outcome::Fail(w, d, idx, e) => {
            epilogue(&w, d, idx, -1, e, true, None);
            -1
        }
        Outcome::Go(w, d, idx) => {
            let r = real(dirfd, p, flags);
            let e = errno();
            epilogue(&w, d, idx, r as i64, e, false, None);
            r
        }
    }
}

#[no_mangle]
pub unsafe extern "C" fn rename(a: *const c_char, b: *const c_char) -> c_int {
    let real = real!("rename", unsafe extern "C" fn(*const c_char, *const c_char) -> c_int);
    let (pa, pb) = (cs(a), cs(b));
    match prologue(|w| {
        if !w.relevant_path(&pa) && !w.relevant_path(&pb) {
            return None;
        }
        let mut d = Desc::new("rename", Class::Path);
        let (i, m) = lstat_ino(&pa);
        d.ino = i;
        d.arg = m as i64;
        d.ino2 = lstat_ino(&pb).0;
        d.path = pa.clone();
        d.path2 = pb.clone();
        Some(d)
    }) {
        Outcome::Pass => real(a, b),
        Outcome::Fail(w, d, idx, e) => {
            epilogue(&w, d, idx, -1, e, true, None);
            -1
        }
        Outcome::Go(w, d, idx) => {
            let r = real(a, b);
            let e = errno();
            epilogue(&w, d, idx, r as i64, e, false, None);
            r
        }
    }
}

#[no_mangle]
pub unsafe extern "C" fn renameat(da: c_int, a: *const c_char, db: c_int, b: *const c_char) -> c_int {
    let real = real!("renameat", unsafe extern "C" fn(c_int, *const c_char, c_int, *const c_char) -> c_int);
    let (ra, rb) = (cs(a), cs(b));
    match prologue(|w| {
        let pa = resolve_at(w, da, &ra)?;
        let pb = resolve_at(w, db, &rb)?;
        if !w.relevant_path(&pa) && !w.relevant_path(&pb) {
            return None;
        }
        let mut d = Desc::new("rename", Class::Path);
        let (i, m) = lstat_ino(&pa);
        d.ino = i;
        d.arg = m as i64;
        d.ino2 = lstat_ino(&pb).0;
        d.path = pa;
        d.path2 = pb;
        Some(d)
    }) {
        Outcome::Pass => real(da, a, db, b),
        Outcome::Fail(w, d, idx, e) => {
            epilogue(&w, d, idx, -1, e, true, None);
            -1
        }
        Outcome::Go(w, d, idx) => {
            let r = real(da, a, db, b);
            let e = errno();
            epilogue(&w, d, idx, r as i64, e, false, None);
            r
        }
    }
}

#[no_mangle]
pub unsafe extern "C" fn renameat2(da: c_int, a: *const c_char, db: c_int, b: *const c_char, flags: libc::c_uint) -> c_int {
    let real = real!("renameat2", unsafe extern "C" fn(c_int, *const c_char, c_int, *const c_char, libc::c_uint) -> c_int);
    let (ra, rb) = (cs(a), cs(b));
    match prologue(|w| {
        let pa = resolve_at(w, da, &ra)?;
        let pb = resolve_at(w, db, &rb)?;
        if !w.relevant_path(&pa) && !w.relevant_path(&pb) {
            return None;
        }
        let mut d = Desc::new("rename", Class::Path);
        let (i, m) = lstat_ino(&pa);
        d.ino = i;
        d.arg = m as i64;
        d.ino2 = lstat_ino(&pb).0;
        d.path = pa;
        d.path2 = pb;
        Some(d)
    }) {
        Outcome::Pass => real(da, a, db, b, flags),
        Outcome::Fail(w, d, idx, e) => {
            epilogue(&w, d, idx, -1, e, true, None);
            -1
        }
        Outcome::Go(w, d, idx) => {
            let r = real(da, a, db, b, flags);
            let e = errno();
            epilogue(&w, d, idx, r as i64, e, false, None);
            r
        }
    }
}

#[no_mangle]
pub unsafe extern "C" fn linkat(da: c_int, a: *const c_char, db: c_int, b: *const c_char, flags: c_int) -> c_int {
    let real = real!("linkat", unsafe extern "C" fn(c_int, *const c_char, c_int, *const c_char, c_int) -> c_int);
    let (ra, rb) = (cs(a), cs(b));
    match prologue(|w| {
        let pa = resolve_at(w, da, &ra)?;
        let pb = resolve_at(w, db, &rb)?;
        if !w.relevant_path(&pa) && !w.relevant_path(&pb) {
            return None;
        }
        let mut d = Desc::new("link", Class::Path);
        let (i, m) = lstat_ino(&pa);
        d.ino = i;
        d.arg = m as i64;
        d.ino2 = lstat_ino(&pb).0;
        d.path = pa;
        d.path2 = pb;
        Some(d)
    }) {
        Outcome::Pass => real(da, a, db, b, flags),
        Outcome::Fail(w, d, idx, e) => {
            epilogue(&w, d, idx, -1, e, true, None);
            -1
        }
        Outcome::Go(w, d, idx) => {
            if w.deny_link != 0 {
                let e = w.deny_link;
                epilogue(&w, d, idx, -1, e, false, None);
                return -1;
            }
            let r = real(da, a, db, b, flags);
            let e = errno();
            epilogue(&w, d, idx, r as i64, e, false, None);
            r
        }
    }
}

#[no_mangle]
pub unsafe extern "C" fn link(a: *const c_char, b: *const c_char) -> c_int {
    linkat(libc::AT_FDCWD, a, libc::AT_FDCWD, b, 0)
}

#[no_mangle]
pub unsafe extern "C" fn symlink(a: *const c_char, b: *const c_char) -> c_int {
    let real = real!("symlink", unsafe extern "C" fn(*const c_char, *const c_char) -> c_int);
    let (pa, pb) = (cs(a), cs(b));
    match prologue(|w| {
        if !w.relevant_path(&pb) {
            return None;
        }
        let mut d = Desc::new("symlink", Class::Path);
        d.path = pb.clone();
        d.path2 = pa.clone();
        Some(d)
    }) {
        Outcome::Pass => real(a, b),
        Outcome::Fail(w, d, idx, e) => {
            epilogue(&w, d, idx, -1, e, true, None);
            -1
        }
        Outcome::Go(w, d, idx) => {
            let r = real(a, b);
            let e = errno();
            epilogue(&w, d, idx, r as i64, e, false, None);
            r
        }
    }
}

#[no_mangle]
pub unsafe extern "C" fn opendir(p: *const c_char) -> *mut libc::DIR {
    let real = real!("opendir", unsafe extern "C" fn(*const c_char) -> *mut libc::DIR);
    let path = cs(p);
    match prologue(|w| {
        if !w.relevant_path(&path) {
            return None;
        }
        let mut d = Desc::new("opendir", Class::Path);
        d.path = path.clone();
        Some(d)
    }) {
        Outcome::Pass => real(p),
        Outcome::Fail(w, d, idx, e) => {
            epilogue(&w, d, idx, -1, e, true, None);
            std::ptr::null_mut()
        }
        Outcome::Go(w, mut d, idx) => {
            let listing = if w.capture_listings { Some(capture_listing(&path)) } else { None };
            let r = real(p);
            let e = errno();
            if !r.is_null() {
                let fd = libc::dirfd(r);
                let (ino, _) = fstat_info(fd);
                d.ino = ino;
                d.fd = fd;
                let mut inner = w.inner.lock().unwrap();
                inner.fds.insert(fd, FdInfo { path: path.clone(), ino, flags: libc::O_RDONLY | libc::O_DIRECTORY, is_dir: true, read_once: false });
                inner.dirs.insert(r as usize, (path.clone(), fd));
            }
            epilogue(&w, d, idx, if r.is_null() { -1 } else { 0 }, e, false, if r.is_null() { None } else { listing });
            r
        }
    }
}

/// `fdopendir` on a traced directory descriptor starts a listing exactly like `opendir` does.
#[no_mangle]
pub unsafe extern "C" fn fdopendir(fd: c_int) -> *mut libc::DIR {
    let real = real!("fdopendir", unsafe extern "C" fn(c_int) -> *mut libc::DIR);
    match prologue(|w| {
        let inner = w.inner.lock().unwrap();
        let info = inner.fds.get(&fd)?;
        if !info.is_dir {
            return None;
        }
        let mut d = Desc::new("opendir", Class::Path);
        d.path = info.path.clone();
        d.ino = info.ino;
        d.fd = fd;
        Some(d)
    }) {
        Outcome::Pass => real(fd),
        Outcome::Fail(w, d, idx, e) => {
            epilogue(&w, d, idx, -1, e, true, None);
            std::ptr::null_mut()
        }
        Outcome::Go(w, d, idx) => {
            let path = d.path.clone();
            let listing = if w.capture_listings { Some(capture_listing(&path)) } else { None };
            let r = real(fd);
            let e = errno();
            if !r.is_null() {
                w.inner.lock().unwrap().dirs.insert(r as usize, (path, fd));
            }
            epilogue(&w, d, idx, if r.is_null() { -1 } else { 0 }, e, false, if r.is_null() { None } else { listing });
            r
        }
    }
}

#[no_mangle]
pub unsafe extern "C" fn readdir64(dir: *mut libc::DIR) -> *mut libc::dirent64 {
    let real = real!("readdir64", unsafe extern "C" fn(*mut libc::DIR) -> *mut libc::dirent64);
    match prologue(|w| {
        let inner = w.inner.lock().unwrap();
        let (path, fd) = inner.dirs.get(&(dir as usize))?;
        let mut d = Desc::new("readdir", Class::Meta);
        d.path = path.clone();
        d.fd = *fd;
        Some(d)
    }) {
        Outcome::Pass => real(dir),
        Outcome::Fail(w, d, idx, e) => {
            epilogue(&w, d, idx, -1, e, true, None);
            std::ptr::null_mut()
        }
        Outcome::Go(w, mut d, idx) => {
            set_errno(0);
            let r = real(dir);
            let e = errno();
            let ret = if r.is_null() {
                if e != 0 {
                    -1
                } else {
                    0
                }
            } else {
                d.path2 = CStr::from_ptr((*r).d_name.as_ptr()).to_string_lossy().into_owned();
                1
            };
            epilogue(&w, d, idx, ret, e, false, None);
            r
        }
    }
}

/// `readdir` proper (what the libc crate binds): on this target `struct dirent` and
/// `struct dirent64` have the same layout, so it shares the traced implementation.
#[no_mangle]
pub unsafe extern "C" fn readdir(dir: *mut libc::DIR) -> *mut libc::dirent {
    readdir64(dir) as *mut libc::dirent
}

#[no_mangle]
pub unsafe extern "C" fn closedir(dir: *mut libc::DIR) -> c_int {
    let real = real!("closedir", unsafe extern "C" fn(*mut libc::DIR) -> c_int);
    match prologue(|w| {
        let inner = w.inner.lock().unwrap();
        let (path, fd) = inner.dirs.get(&(dir as usize))?;
        let mut d = Desc::new("closedir", Class::Data);
        d.path = path.clone();
        d.fd = *fd;
        Some(d)
    }) {
        Outcome::Pass => real(dir),
        Outcome::Fail(w, d, idx, _) | Outcome::Go(w, d, idx) => {
            // closedir is never failed: std ignores / asserts on its result
            let fd = d.fd;
            let r = real(dir);
            let e = errno();
            {
                let mut inner = w.inner.lock().unwrap();
                inner.dirs.remove(&(dir as usize));
                inner.fds.remove(&fd);
            }
            epilogue(&w, d, idx, r as i64, e, false, None);
            r
        }
    }
}

#[no_mangle]
pub unsafe extern "C" fn clock_gettime(clk: libc::clockid_t, ts: *mut libc::timespec) -> c_int {
    let real = real!("clock_gettime", unsafe extern "C" fn(libc::clockid_t, *mut libc::timespec) -> c_int);
    if clk == libc::CLOCK_REALTIME && !ts.is_null() {
        if let Ok(Some(w)) = TL.try_with(|t| if t.busy.get() { None } else { t.world.borrow().clone() }) {
            // try_lock: never block here
            if let Ok(c) = w.vclock.try_lock() {
                if *c != 0 {
                    *ts = to_ts(*c);
                    return 0;
                }
            }
        }
    }
    real(clk, ts)
}

/// Names of the libc entry points this module interposes (for the import audit).
pub const INTERPOSED: &[&str] = &[
    "open64", "open", "openat64", "openat", "close", "read", "write", "lseek64", "lseek", "ftruncate64", "ftruncate",
    "copy_file_range", "renameat2", "fsync", "fdatasync", "fchmod", "flock", "lockf", "fcntl", "fcntl64", "futimens", "utimensat",
    "statx", "chmod", "mkdir", "fchmodat", "unlink", "rmdir", "unlinkat", "rename", "renameat", "linkat", "link",
    "symlink", "opendir", "fdopendir", "readdir64", "readdir", "closedir", "fstatat", "fstatat64", "fstat", "fstat64", "clock_gettime", "sendfile64", "splice", "writev",
];

/// Registers a descriptor that was opened while the shim was bypassed, so that later calls on it
/// by the library are traced like any other world descriptor.
pub fn adopt_fd(fd: i32, path: &std::path::Path) {
    if let Some(w) = current_world() {
        bypass(|| {
            let (ino, is_dir) = fstat_info(fd);
            let flags = unsafe { real!("fcntl", unsafe extern "C" fn(c_int, c_int, c_long) -> c_int)(fd, libc::F_GETFL, 0) };
            w.inner.lock().unwrap().fds.insert(fd, FdInfo { path: path.to_string_lossy().into_owned(), ino, flags, is_dir, read_once: false });
        })
    }
}

// ---- rarely used data-plane fallbacks of std::io::copy and vectored writes: traced like write

#[no_mangle]
pub unsafe extern "C" fn sendfile64(out_fd: c_int, in_fd: c_int, off: *mut off64_t, count: size_t) -> ssize_t {
    let real = real!("sendfile64", unsafe extern "C" fn(c_int, c_int, *mut off64_t, size_t) -> ssize_t);
    match prologue(|w| {
        let mut d = fd_desc(w, out_fd, "write", Class::Data)?;
        d.arg = count as i64;
        Some(d)
    }) {
        Outcome::Pass => real(out_fd, in_fd, off, count),
        Outcome::Fail(w, d, idx, e) => {
            epilogue(&w, d, idx, -1, e, true, None);
            -1
        }
        Outcome::Go(w, d, idx) => {
            let r = real(out_fd, in_fd, off, count);
            let e = errno();
            epilogue(&w, d, idx, r as i64, e, false, None);
            r
        }
    }
}

#[no_mangle]
pub unsafe extern "C" fn splice(fd_in: c_int, off_in: *mut off64_t, fd_out: c_int, off_out: *mut off64_t, len: size_t, flags: c_uint) -> ssize_t {
    let real = real!("splice", unsafe extern "C" fn(c_int, *mut off64_t, c_int, *mut off64_t, size_t, c_uint) -> ssize_t);
    match prologue(|w| {
        let mut d = fd_desc(w, fd_out, "write", Class::Data)?;
        d.arg = len as i64;
        Some(d)
    }) {
        Outcome::Pass => real(fd_in, off_in, fd_out, off_out, len, flags),
        Outcome::Fail(w, d, idx, e) => {
            epilogue(&w, d, idx, -1, e, true, None);
            -1
        }
        Outcome::Go(w, d, idx) => {
            let r = real(fd_in, off_in, fd_out, off_out, len, flags);
            let e = errno();
            epilogue(&w, d, idx, r as i64, e, false, None);
            r
        }
    }
}

#[no_mangle]
pub unsafe extern "C" fn writev(fd: c_int, iov: *const libc::iovec, n: c_int) -> ssize_t {
    let real = real!("writev", unsafe extern "C" fn(c_int, *const libc::iovec, c_int) -> ssize_t);
    match prologue(|w| fd_desc(w, fd, "write", Class::Data)) {
        Outcome::Pass => real(fd, iov, n),
        Outcome::Fail(w, d, idx, e) => {
            epilogue(&w, d, idx, -1, e, true, None);
            -1
        }
        Outcome::Go(w, d, idx) => {
            let r = real(fd, iov, n);
            let e = errno();
            epilogue(&w, d, idx, r as i64, e, false, None);
            r
        }
    }
}
