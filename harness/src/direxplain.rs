//! DirExplainer: is the difference between two states of one cache directory
//! "nothing" or exactly one Second Chance maintenance (plus the operation's own insertion)?
use crate::clockq::{accepts, Item};
use crate::common::Snap;
use crate::shim::ListEnt;
use std::collections::{BTreeMap, BTreeSet};

#[derive(Clone, Debug, Default)]
pub struct DirState {
    /// population: non-directory entries a key can name (no leading '.') -> (mtime, atime)
    pub files: BTreeMap<String, (i128, i128)>,
    /// everything else directly in the directory (directories, dot files) -> (is_dir, mtime, atime)
    pub others: BTreeMap<String, (bool, i128, i128)>,
}

impl DirState {
    pub fn from_listing(l: &[ListEnt]) -> DirState {
        let mut s = DirState::default();
        for e in l {
            if !e.is_dir && !e.name.starts_with('.') {
                s.files.insert(e.name.clone(), (e.mtime, e.atime));
            } else {
                s.others.insert(e.name.clone(), (e.is_dir, e.mtime, e.atime));
            }
        }
        s
    }
    /// direct children of `rel_dir` ("" = root of the snapshot) in a recursive snapshot
    pub fn from_snap(snap: &Snap, rel_dir: &str) -> DirState {
        let mut s = DirState::default();
        for (path, e) in snap {
            let child = if rel_dir.is_empty() {
                path.as_str()
            } else {
                match path.strip_prefix(rel_dir).and_then(|p| p.strip_prefix('/')) {
                    Some(c) => c,
                    None => continue,
                }
            };
            if child.is_empty() || child.contains('/') {
                continue;
            }
            if e.kind != 'd' && !child.starts_with('.') {
                s.files.insert(child.to_string(), (e.mtime, e.atime));
            } else {
                s.others.insert(child.to_string(), (e.kind == 'd', e.mtime, e.atime));
            }
        }
        s
    }
    pub fn accessed(&self, name: &str) -> Option<bool> {
        self.files.get(name).map(|(m, a)| a >= m)
    }
}

#[derive(Clone, Debug, Default)]
pub struct Explained {
    pub gone: Vec<String>,
    pub restamped: Vec<String>,
    pub evicted_any: bool,
    /// the population had a tie in mtime, or an accessed entry at or before the last victim
    pub interesting: bool,
}

/// `before`: the directory as the maintenance saw it; `after`: the directory afterwards;
/// `own`: name the surrounding operation itself (re)wrote after the maintenance (its state in
/// `after` is not attributable to maintenance); `own_unlinked`: whether the trace shows the
/// maintenance unlinked `own` (only meaningful if `own` was in `before`).
pub fn explain(before: &DirState, after: &DirState, capacity: usize, own: Option<&str>, own_unlinked: bool) -> Result<Explained, String> {
    let n = before.files.len();
    let mut gone: Vec<String> = Vec::new();
    let mut restamped: Vec<(i128, i128, String)> = Vec::new();
    let max_old = before.files.values().map(|v| v.0).max().unwrap_or(0);
    for (name, (m0, a0)) in &before.files {
        if Some(name.as_str()) == own {
            if own_unlinked {
                gone.push(name.clone());
            }
            continue;
        }
        match after.files.get(name) {
            None => gone.push(name.clone()),
            Some((m1, a1)) => {
                if m1 != m0 {
                    if n <= capacity {
                        return Err(format!("directory within capacity ({} files <= {}) but {} was re-stamped (mtime {} -> {})", n, capacity, name, m0, m1));
                    }
                    // "back of the queue" = stamped with the current time, which is behind every mtime that
                    // existed before unless some files are dated in the future (clock skew between writers):
                    // those legitimately stay behind a file re-stamped now
                    let floor = max_old.min(crate::common::now_ns() - 3_600_000_000_000);
                    if *m1 < floor {
                        return Err(format!("{} was re-stamped to mtime {} which is older than an mtime that existed before ({}): not moved to the back of the queue", name, m1, max_old));
                    }
                    if a1 >= m1 {
                        return Err(format!("{} was moved to the back but its read mark is still set (atime {} >= mtime {})", name, a1, m1));
                    }
                    restamped.push((*m1, *m0, name.clone()));
                } else if a1 != a0 && *a0 >= *m0 && a1 < m1 && n > capacity {
                    // re-stamped under a clock that did not advance: same mtime value, read mark cleared
                    restamped.push((*m1, *m0, name.clone()));
                } else if a1 != a0 {
                    return Err(format!("{}: atime changed ({} -> {}) although the file was neither evicted nor moved back", name, a0, a1));
                }
            }
        }
    }
    for name in after.files.keys() {
        if !before.files.contains_key(name) && Some(name.as_str()) != own {
            return Err(format!("unexpected new file {} in the directory", name));
        }
    }
    for (name, (is_dir, m0, _a0)) in &before.others {
        match after.others.get(name) {
            None => return Err(format!("{} {} was removed by maintenance", if *is_dir { "directory" } else { "dot-prefixed file" }, name)),
            Some((_, m1, _)) => {
                if !*is_dir && m1 != m0 {
                    return Err(format!("dot-prefixed file {} was re-stamped by maintenance", name));
                }
            }
        }
    }
    if n <= capacity {
        if !gone.is_empty() {
            return Err(format!("directory within capacity ({} files <= {}) but {:?} deleted", n, capacity, gone));
        }
        return Ok(Explained::default());
    }
    // over capacity: exactly one Second Chance pass
    let names: Vec<&String> = before.files.keys().collect();
    let items: Vec<Item<i128>> = names.iter().enumerate().map(|(id, name)| {
        let (m, a) = before.files[*name];
        Item { id, rank: m, accessed: a >= m }
    }).collect();
    let idx = |name: &String| names.iter().position(|x| *x == name).unwrap();
    let ev: Vec<usize> = gone.iter().map(idx).collect();
    // queue order of the reprieved = order of their new mtimes; equal new stamps carry no order
    restamped.sort();
    let mb: Vec<usize> = restamped.iter().map(|(_, _, name)| idx(name)).collect();
    // The operation's own key, if it was in the population and not unlinked, was rewritten after
    // the maintenance: whether (and where) it was moved back cannot be read off the final state,
    // so every possibility is tried.
    let mut candidates: Vec<Vec<usize>> = vec![mb.clone()];
    if let Some(o) = own {
        if before.files.contains_key(o) && !own_unlinked {
            let oid = idx(&o.to_string());
            for pos in 0..=mb.len() {
                let mut v = mb.clone();
                v.insert(pos, oid);
                candidates.push(v);
            }
        }
    }
    let mut first_err = None;
    let mut ok = false;
    for cand in &candidates {
        match accepts(&items, capacity, &ev, cand) {
            Ok(()) => {
                ok = true;
                break;
            }
            Err(e) => {
                if first_err.is_none() {
                    first_err = Some(e);
                }
            }
        }
    }
    if !ok {
        let why = first_err.unwrap();
        let pretty = |id: usize| format!("{}(mtime={},{})", names[id], items[id].rank, if items[id].accessed { "read" } else { "unread" });
        return Err(format!(
            "{} [capacity {}, population {:?}; deleted {:?}; moved back {:?}]",
            why.replace("entry id ", "entry #"),
            capacity,
            (0..items.len()).map(pretty).collect::<Vec<_>>(),
            gone,
            restamped.iter().map(|x| x.2.clone()).collect::<Vec<_>>()
        ));
    }
    let ranks: BTreeSet<i128> = items.iter().map(|i| i.rank).collect();
    let last_victim = ev.iter().map(|id| items[*id].rank).max().unwrap_or(0);
    let interesting = ranks.len() < items.len() || items.iter().any(|i| i.accessed && i.rank <= last_victim);
    Ok(Explained { gone, restamped: restamped.into_iter().map(|x| x.2).collect(), evicted_any: true, interesting })
}
