//! Shared pieces: value codec, snapshots, scratch worlds, privilege drop,
//! worker reports.
use serde::{Deserialize, Serialize};
use serde_json::json;
use std::collections::{BTreeMap, BTreeSet};
use std::ffi::CString;
use std::os::unix::ffi::OsStrExt;
use std::os::unix::fs::MetadataExt;
use std::path::{Path, PathBuf};

// ------------------------------------------------------------------ rng

/// splitmix64: the only PRNG used outside proptest (enumeration sampling, body bytes).
#[derive(Clone, Debug)]
pub struct Rng(pub u64);
impl Rng {
    pub fn new(seed: u64) -> Rng {
        Rng(seed.wrapping_mul(0x9E3779B97F4A7C15) ^ 0xD1B54A32D192ED03)
    }
    pub fn next(&mut self) -> u64 {
        self.0 = self.0.wrapping_add(0x9E3779B97F4A7C15);
        let mut z = self.0;
        z = (z ^ (z >> 30)).wrapping_mul(0xBF58476D1CE4E5B9);
        z = (z ^ (z >> 27)).wrapping_mul(0x94D049BB133111EB);
        z ^ (z >> 31)
    }
    pub fn below(&mut self, n: u64) -> u64 {
        if n == 0 {
            0
        } else {
            ((self.next() as u128 * n as u128) >> 64) as u64
        }
    }
    pub fn pick<'a, T>(&mut self, xs: &'a [T]) -> &'a T {
        &xs[self.below(xs.len() as u64) as usize]
    }
    pub fn chance(&mut self, num: u64, den: u64) -> bool {
        self.below(den) < num
    }
}

pub fn fnv(bytes: &[u8]) -> u64 {
    let mut h: u64 = 0xcbf29ce484222325;
    for b in bytes {
        h ^= *b as u64;
        h = h.wrapping_mul(0x100000001b3);
    }
    h
}

pub fn hash_str(s: &str) -> u64 {
    fnv(s.as_bytes())
}

// ---------------------------------------------------------------- values

/// Self-describing cache value: header + keyed pseudo-random body.
#[derive(Clone, Debug, PartialEq, Eq, Hash, PartialOrd, Ord, Serialize, Deserialize)]
pub struct Val {
    pub key: String,
    pub writer: u32,
    pub seq: u32,
    pub len: usize,
}

pub const SIZES: &[usize] = &[1, 17, 4096, 8193, 70_000];

/// writer id reserved for zero-byte values (see `Val::encode`)
pub const EMPTY_WRITER: u32 = 0xE0E0;

impl Val {
    pub fn new(key: &str, writer: u32, seq: u32, len: usize) -> Val {
        Val { key: key.to_string(), writer, seq, len }
    }
    pub fn header(&self) -> String {
        format!("key={};writer={};seq={};len={};", self.key, self.writer, self.seq, self.len)
    }
    pub fn encode(&self) -> Vec<u8> {
        if self.writer == EMPTY_WRITER && self.len == 0 {
            // a legitimately EMPTY value (zero bytes): it carries no identity, the checks that use it
            // compare sizes and inodes instead
            return Vec::new();
        }
        let mut out = self.header().into_bytes();
        let mut r = Rng::new(fnv(&out));
        let mut i = 0;
        while i < self.len {
            let w = r.next().to_le_bytes();
            for b in w.iter() {
                if i < self.len {
                    out.push(b'a' + (b % 26));
                    i += 1;
                }
            }
        }
        out.push(b'\n');
        out
    }
    /// Parses bytes; Ok only for a complete, untorn value.
    pub fn decode(bytes: &[u8]) -> Result<Val, String> {
        if bytes.is_empty() {
            return Err("empty".into());
        }
        let text_end = bytes.iter().enumerate().filter(|(_, b)| **b == b';').map(|(i, _)| i).nth(3).ok_or_else(|| format!("no header in {} bytes: {:?}", bytes.len(), String::from_utf8_lossy(&bytes[..bytes.len().min(40)])))?;
        let header = std::str::from_utf8(&bytes[..=text_end]).map_err(|_| "header not utf8".to_string())?;
        let mut key = None;
        let mut writer = None;
        let mut seq = None;
        let mut len = None;
        for part in header.split(';') {
            if let Some(v) = part.strip_prefix("key=") {
                key = Some(v.to_string());
            } else if let Some(v) = part.strip_prefix("writer=") {
                writer = v.parse::<u32>().ok();
            } else if let Some(v) = part.strip_prefix("seq=") {
                seq = v.parse::<u32>().ok();
            } else if let Some(v) = part.strip_prefix("len=") {
                len = v.parse::<usize>().ok();
            }
        }
        let v = match (key, writer, seq, len) {
            (Some(key), Some(writer), Some(seq), Some(len)) => Val { key, writer, seq, len },
            _ => return Err(format!("bad header {:?}", header)),
        };
        let expect = v.encode();
        if expect.len() != bytes.len() {
            return Err(format!("length {} != expected {} for {}", bytes.len(), expect.len(), v.header()));
        }
        if expect != bytes {
            return Err(format!("body mismatch for {}", v.header()));
        }
        Ok(v)
    }
}

/// Writes `data` to `path` in <=4096-byte write calls (so that multi-chunk values have interior points).
pub fn write_chunked(f: &mut std::fs::File, data: &[u8]) -> std::io::Result<()> {
    use std::io::Write;
    for chunk in data.chunks(4096) {
        f.write_all(chunk)?;
    }
    Ok(())
}

pub fn read_all(f: &mut std::fs::File) -> std::io::Result<Vec<u8>> {
    use std::io::Read;
    let mut v = Vec::new();
    f.read_to_end(&mut v)?;
    Ok(v)
}

// -------------------------------------------------------------- snapshot

#[derive(Clone, Debug, PartialEq, Eq, Serialize)]
pub struct Ent {
    pub kind: char, // 'f', 'd', 'l', '?'
    pub mode: u32,
    pub nlink: u64,
    pub size: u64,
    pub mtime: i128,
    pub atime: i128,
    pub ino: u64,
    pub hash: u64,
    /// decoded value if the content is a complete Val
    pub val: Option<Val>,
}

pub type Snap = BTreeMap<String, Ent>;

fn snap_rec(root: &Path, rel: &str, out: &mut Snap, with_content: bool) {
    let dir = if rel.is_empty() { root.to_path_buf() } else { root.join(rel) };
    let rd = match std::fs::read_dir(&dir) {
        Ok(rd) => rd,
        Err(_) => return,
    };
    for ent in rd.flatten() {
        let name = ent.file_name();
        let name = String::from_utf8_lossy(name.as_bytes()).into_owned();
        let child_rel = if rel.is_empty() { name.clone() } else { format!("{}/{}", rel, name) };
        let meta = match std::fs::symlink_metadata(ent.path()) {
            Ok(m) => m,
            Err(_) => continue,
        };
        let ft = meta.file_type();
        let kind = if ft.is_dir() {
            'd'
        } else if ft.is_file() {
            'f'
        } else if ft.is_symlink() {
            'l'
        } else {
            '?'
        };
        let (hash, val) = if kind == 'f' && with_content {
            match read_noatime(&ent.path()) {
                Ok(bytes) => (fnv(&bytes), Val::decode(&bytes).ok()),
                Err(_) => (0, None),
            }
        } else {
            (0, None)
        };
        out.insert(
            child_rel.clone(),
            Ent {
                kind,
                mode: meta.mode() & 0o7777,
                nlink: meta.nlink(),
                size: if kind == 'f' { meta.size() } else { 0 },
                mtime: meta.mtime() as i128 * 1_000_000_000 + meta.mtime_nsec() as i128,
                atime: meta.atime() as i128 * 1_000_000_000 + meta.atime_nsec() as i128,
                ino: meta.ino(),
                hash,
                val,
            },
        );
        if kind == 'd' {
            snap_rec(root, &child_rel, out, with_content);
        }
    }
}

/// Reads a file without disturbing its atime (O_NOATIME; we own the files or are root).
pub fn read_noatime(path: &Path) -> std::io::Result<Vec<u8>> {
    use std::io::Read;
    use std::os::unix::fs::OpenOptionsExt;
    let mut f = match std::fs::OpenOptions::new().read(true).custom_flags(libc::O_NOATIME).open(path) {
        Ok(f) => f,
        Err(_) => std::fs::File::open(path)?,
    };
    let mut v = Vec::new();
    f.read_to_end(&mut v)?;
    Ok(v)
}

/// Recursive snapshot of `root` (relative path -> entry), taken with the shim bypassed and
/// without disturbing access times.
pub fn snapshot(root: &Path) -> Snap {
    crate::shim::bypass(|| {
        let mut out = Snap::new();
        snap_rec(root, "", &mut out, true);
        out
    })
}

pub fn snapshot_meta(root: &Path) -> Snap {
    crate::shim::bypass(|| {
        let mut out = Snap::new();
        snap_rec(root, "", &mut out, false);
        out
    })
}

/// Sets (atime, mtime) in ns through utimensat, bypassing the shim. Works on read-only files we own.
pub fn set_times_ns(path: &Path, atime: i128, mtime: i128) -> std::io::Result<()> {
    let c = CString::new(path.as_os_str().as_bytes()).unwrap();
    let ts = |ns: i128| libc::timespec { tv_sec: ns.div_euclid(1_000_000_000) as i64, tv_nsec: ns.rem_euclid(1_000_000_000) as i64 };
    let times = [ts(atime), ts(mtime)];
    crate::shim::bypass(|| {
        let fd = unsafe { libc::open(c.as_ptr(), libc::O_RDONLY | libc::O_NOFOLLOW | libc::O_NOATIME | libc::O_CLOEXEC) };
        let fd = if fd < 0 { unsafe { libc::open(c.as_ptr(), libc::O_RDONLY | libc::O_NOFOLLOW | libc::O_CLOEXEC) } } else { fd };
        if fd < 0 {
            return Err(std::io::Error::last_os_error());
        }
        let r = unsafe { libc::futimens(fd, times.as_ptr()) };
        let e = std::io::Error::last_os_error();
        unsafe { libc::close(fd) };
        if r != 0 {
            return Err(e);
        }
        Ok(())
    })
}

pub fn now_ns() -> i128 {
    let d = std::time::SystemTime::now().duration_since(std::time::UNIX_EPOCH).unwrap();
    d.as_nanos() as i128
}

// --------------------------------------------------------------- scratch

pub struct Scratch {
    pub path: PathBuf,
}

static SCRATCH_COUNTER: std::sync::atomic::AtomicU64 = std::sync::atomic::AtomicU64::new(0);

pub fn scratch_base() -> PathBuf {
    if let Some(p) = std::env::var_os("VERIF_SCRATCH") {
        return PathBuf::from(p);
    }
    // tmpfs when available (fast, nanosecond timestamps, hard links), else the system temp directory
    let shm = PathBuf::from("/dev/shm");
    if shm.is_dir() {
        shm
    } else {
        std::env::temp_dir()
    }
}

impl Scratch {
    pub fn new(tag: &str) -> Scratch {
        let n = SCRATCH_COUNTER.fetch_add(1, std::sync::atomic::Ordering::Relaxed);
        let path = scratch_base().join(format!("kv-{}-{}-{}", tag, std::process::id(), n));
        crate::shim::bypass(|| {
            let _ = std::fs::remove_dir_all(&path);
            std::fs::create_dir_all(&path).expect("create scratch");
        });
        Scratch { path }
    }
    pub fn p(&self, rel: &str) -> PathBuf {
        self.path.join(rel)
    }
    pub fn s(&self) -> String {
        self.path.to_string_lossy().into_owned()
    }
}

impl Drop for Scratch {
    fn drop(&mut self) {
        crate::shim::bypass(|| {
            // make everything removable, then remove
            let _ = chmod_rec(&self.path);
            let _ = std::fs::remove_dir_all(&self.path);
        });
    }
}

fn chmod_rec(p: &Path) -> std::io::Result<()> {
    use std::os::unix::fs::PermissionsExt;
    if let Ok(meta) = std::fs::symlink_metadata(p) {
        if meta.is_dir() {
            let _ = std::fs::set_permissions(p, std::fs::Permissions::from_mode(0o755));
            for e in std::fs::read_dir(p)?.flatten() {
                let _ = chmod_rec(&e.path());
            }
        }
    }
    Ok(())
}

/// Writes a file with given content directly (bypassing the shim), mode 0444 like a published entry.
pub fn plant_file(path: &Path, data: &[u8], mode: u32) {
    use std::os::unix::fs::PermissionsExt;
    crate::shim::bypass(|| {
        if let Some(parent) = path.parent() {
            std::fs::create_dir_all(parent).unwrap();
        }
        let _ = std::fs::remove_file(path);
        std::fs::write(path, data).unwrap();
        std::fs::set_permissions(path, std::fs::Permissions::from_mode(mode)).unwrap();
    })
}

/// Creates a private source file for set/put outside any cache directory's namespace of keys
/// (in `dir`, created if needed), written in chunks through the shim.
pub fn make_source(dir: &Path, tag: &str, data: &[u8]) -> PathBuf {
    let path = dir.join(format!("src-{}-{}-{}", tag, std::process::id(), SCRATCH_COUNTER.fetch_add(1, std::sync::atomic::Ordering::Relaxed)));
    crate::shim::bypass(|| {
        std::fs::create_dir_all(dir).unwrap();
        let mut f = std::fs::File::create(&path).unwrap();
        write_chunked(&mut f, data).unwrap();
    });
    path
}

// ------------------------------------------------------------ privileges

/// Drops to an unprivileged effective uid (root bypasses permission checks, hiding EACCES races).
/// Returns a description for the evidence's assumptions.
pub fn drop_privileges() -> String {
    unsafe {
        if libc::geteuid() != 0 {
            return format!("already unprivileged (euid {})", libc::geteuid());
        }
        if libc::setegid(65534) != 0 || libc::seteuid(65534) != 0 {
            return "could not drop privileges: running as root, EACCES races are invisible".to_string();
        }
        "workers run with euid 65534 (nobody)".to_string()
    }
}

pub fn is_unprivileged() -> bool {
    unsafe { libc::geteuid() != 0 }
}

// ---------------------------------------------------------------- report

#[derive(Clone, Debug, Serialize, Deserialize)]
pub struct Violation {
    /// stable shape of the failure (used to match known findings)
    pub signature: String,
    pub detail: String,
    /// the (shrunk) case, self-contained: `kv replay <file>` re-executes it
    pub replay: serde_json::Value,
}

#[derive(Clone, Debug, Default, Serialize, Deserialize)]
pub struct Report {
    pub evaluations: u64,
    pub nontrivial: BTreeSet<u64>,
    /// non-trivial cases that are distinct by construction (enumerations), counted not hashed
    pub nontrivial_enum: u64,
    pub labels: BTreeMap<String, u64>,
    pub samples: Vec<serde_json::Value>,
    pub violations: Vec<Violation>,
    pub assumptions: BTreeSet<String>,
    pub exhaustive: bool,
    pub excluded_known: u64,
    pub extra: BTreeMap<String, serde_json::Value>,
    pub inconclusive: Vec<String>,
}

impl Report {
    pub fn label(&mut self, l: &str) {
        *self.labels.entry(l.to_string()).or_insert(0) += 1;
    }
    pub fn label_n(&mut self, l: &str, n: u64) {
        *self.labels.entry(l.to_string()).or_insert(0) += n;
    }
    pub fn case(&mut self, nontrivial_hash: Option<u64>) {
        self.evaluations += 1;
        if let Some(h) = nontrivial_hash {
            self.nontrivial.insert(h);
        }
    }
    pub fn sample(&mut self, v: serde_json::Value) {
        if self.samples.len() < 4 {
            self.samples.push(v);
        }
    }
    pub fn violation(&mut self, signature: &str, detail: String, replay: serde_json::Value) {
        // keep at most a few per signature
        if self.violations.iter().filter(|v| v.signature == signature).count() < 3 {
            self.violations.push(Violation { signature: signature.to_string(), detail, replay });
        }
    }
    pub fn extra_add(&mut self, k: &str, n: u64) {
        let cur = self.extra.get(k).and_then(|v| v.as_u64()).unwrap_or(0);
        self.extra.insert(k.to_string(), json!(cur + n));
    }
    pub fn merge(&mut self, other: Report) {
        self.evaluations += other.evaluations;
        self.nontrivial.extend(other.nontrivial);
        self.nontrivial_enum += other.nontrivial_enum;
        for (k, v) in other.labels {
            *self.labels.entry(k).or_insert(0) += v;
        }
        for s in other.samples {
            if self.samples.len() < 8 {
                self.samples.push(s);
            }
        }
        for v in other.violations {
            if self.violations.iter().filter(|x| x.signature == v.signature).count() < 3 {
                self.violations.push(v);
            }
        }
        self.assumptions.extend(other.assumptions);
        self.exhaustive = self.exhaustive && other.exhaustive;
        self.excluded_known += other.excluded_known;
        for (k, v) in other.extra {
            match (self.extra.get(&k).and_then(|x| x.as_u64()), v.as_u64()) {
                (Some(a), Some(b)) if k.starts_with("max_") => {
                    self.extra.insert(k, json!(a.max(b)));
                }
                (Some(a), Some(b)) => {
                    self.extra.insert(k, json!(a + b));
                }
                _ => {
                    self.extra.entry(k).or_insert(v);
                }
            }
        }
        self.inconclusive.extend(other.inconclusive);
    }
}

/// Per-worker context.
#[derive(Clone, Debug)]
pub struct Ctx {
    pub tier: Tier,
    pub seed: u64,
    pub worker: usize,
    pub workers: usize,
}

#[derive(Clone, Copy, Debug, PartialEq, Eq)]
pub enum Tier {
    Quick,
    Thorough,
}

impl Ctx {
    pub fn rng(&self, salt: u64) -> Rng {
        Rng::new(self.seed.wrapping_mul(1_000_003).wrapping_add(self.worker as u64).wrapping_mul(7919).wrapping_add(salt))
    }
    pub fn scale(&self, quick: u64, thorough: u64) -> u64 {
        let n = match self.tier {
            Tier::Quick => quick,
            Tier::Thorough => thorough,
        };
        // VERIF_SCALE_DIV shrinks generated workloads (used for the ext4 slice of the thorough tier)
        let div = std::env::var("VERIF_SCALE_DIV").ok().and_then(|s| s.parse::<u64>().ok()).unwrap_or(1).max(1);
        (n / div).max(1)
    }
    /// this worker's share of `total` units of work
    pub fn share(&self, total: u64) -> u64 {
        let base = total / self.workers as u64;
        let extra = if (self.worker as u64) < total % self.workers as u64 { 1 } else { 0 };
        base + extra
    }
    /// true if enumerated item `i` belongs to this worker
    pub fn mine(&self, i: u64) -> bool {
        i % self.workers as u64 == self.worker as u64
    }
    pub fn proptest_seed(&self, salt: u64) -> [u8; 32] {
        let mut r = self.rng(salt ^ 0xABCDEF);
        let mut out = [0u8; 32];
        for c in out.chunks_mut(8) {
            c.copy_from_slice(&r.next().to_le_bytes());
        }
        out
    }
}

// --------------------------------------------------------------- proptest

use proptest::strategy::Strategy;
use proptest::test_runner::{Config, RngAlgorithm, TestCaseError, TestError, TestRng, TestRunner};

/// Runs `cases` generated cases of `strat` through `test(case, exploring)`; `exploring` is false
/// while proptest re-runs the closure to shrink a failure. Returns the shrunk failing case.
pub fn prop_search<S: Strategy>(
    ctx: &Ctx,
    salt: u64,
    cases: u32,
    max_shrink: u32,
    strat: &S,
    test: impl Fn(&S::Value, bool) -> Result<(), String>,
) -> Option<(String, S::Value)>
where
    S::Value: Clone + std::fmt::Debug,
{
    let config = Config { cases, failure_persistence: None, max_shrink_iters: max_shrink, verbose: 0, max_global_rejects: 1_000_000, ..Config::default() };
    let rng = TestRng::from_seed(RngAlgorithm::ChaCha, &ctx.proptest_seed(salt));
    let mut runner = TestRunner::new_with_rng(config, rng);
    let failed = std::cell::Cell::new(false);
    let res = runner.run(strat, |v| {
        let exploring = !failed.get();
        match test(&v, exploring) {
            Ok(()) => Ok(()),
            Err(e) => {
                failed.set(true);
                Err(TestCaseError::fail(e))
            }
        }
    });
    match res {
        Ok(()) => None,
        Err(TestError::Fail(reason, v)) => Some((reason.message().to_string(), v)),
        Err(TestError::Abort(reason)) => panic!("proptest aborted: {}", reason.message()),
    }
}

// ------------------------------------------------------------ traced ops

use crate::shim::{self, Event, World, WorldCfg};
use std::sync::Arc;

pub fn trace_world(roots: &[&Path]) -> Arc<World> {
    World::new(WorldCfg { roots: roots.iter().map(|p| p.to_string_lossy().into_owned()).collect(), trace: true, capture_listings: true, ..Default::default() })
}

/// Runs `f` as participant 0 of `world` (unscheduled) and returns its result with the trace.
/// Panics inside `f` are caught and reported as Err(message).
pub fn traced<R>(world: &Arc<World>, f: impl FnOnce() -> R) -> (Result<R, String>, Vec<Event>) {
    world.take_events();
    shim::enter_world(world, 0);
    shim::begin_op(0);
    let r = std::panic::catch_unwind(std::panic::AssertUnwindSafe(f));
    shim::leave_world();
    let ev = world.take_events();
    let r = r.map_err(|p| {
        if let Some(s) = p.downcast_ref::<String>() {
            s.clone()
        } else if let Some(s) = p.downcast_ref::<&str>() {
            s.to_string()
        } else {
            "panic".to_string()
        }
    });
    (r, ev)
}

/// Silences the default panic message (panics are expected and caught in several checks).
pub fn quiet_panics() {
    std::panic::set_hook(Box::new(|_| {}));
}
