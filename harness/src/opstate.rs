//! The (operation, pre-state, front-end) product shared by the crash (C02) and fault (C18)
//! enumerations, with the directory-validity and usability oracles.
use crate::common::*;
use crate::fe::*;
use crate::shardoracle as so;
use serde::{Deserialize, Serialize};
use std::collections::BTreeMap;
use std::path::{Path, PathBuf};

#[derive(Clone, Debug, PartialEq, Eq, Hash, Serialize, Deserialize)]
pub struct OsCase {
    pub op: u8,
    pub pre: u8,
    pub fe: u8,
    pub size: usize,
    pub fire: bool,
}

pub const OP_NAMES: &[&str] = &[
    "set", "put", "get", "touch", "temp_dir", "Cache::set", "Cache::put", "Cache::set_temp_file", "Cache::put_temp_file", "Cache::ensure", "Cache::get_or_update(Accept)",
    "Cache::get_or_update(Promote)", "Cache::get_or_update(Replace)", "raw_cache::prune",
];
pub const PRE_NAMES: &[&str] = &["cache directory missing", "empty directory", "shard directories missing", "key absent", "key present", "over capacity, mixed read marks", "secondary hit to promote"];
pub const KEY: &str = "key";

pub fn applicable(c: &OsCase) -> bool {
    let stacked = (5..=12).contains(&c.op);
    match c.pre {
        2 => c.fe == 1,
        6 => stacked,
        _ => true,
    }
}

pub fn all_cases(sizes: &[usize]) -> Vec<OsCase> {
    let mut v = Vec::new();
    for op in 0..14u8 {
        for pre in 0..7u8 {
            for fe in 0..2u8 {
                for &size in sizes {
                    for fire in [true, false] {
                        let c = OsCase { op, pre, fe, size, fire };
                        if applicable(&c) {
                            v.push(c);
                        }
                    }
                }
            }
        }
    }
    v
}

pub struct Built {
    pub case: OsCase,
    pub wspec: DirSpec,
    pub stack: Option<StackSpec>,
    pub key: KeySpec,
    pub others: Vec<KeySpec>,
    /// value the operation writes / populates
    pub new_val: Val,
    /// pre-state content of the writer (key name -> value) and of the reader
    pub pre_writer: BTreeMap<String, Val>,
    pub pre_reader: BTreeMap<String, Val>,
    /// directory in which the target key lives / would be published first
    pub target_dir: PathBuf,
}

fn target_key() -> KeySpec {
    KeySpec::new(KEY, 0x0123_4567_89ab_cdef, 0xfedc_ba98_7654_3210)
}

/// keys whose primary shard is the target's primary shard (2 shards)
fn sibling_key(i: usize) -> KeySpec {
    let t = target_key();
    let (h1, _) = so::shards(t.hash, t.sec, 2);
    let y = so::boundary(h1, 2).wrapping_add(1000 + i as u64);
    // secondary image in the other shard
    let other = 1 - h1;
    let y2 = so::boundary(other, 2).wrapping_add(2000 + i as u64);
    KeySpec::new(&format!("o{}", i), so::primary().unmix(y), so::secondary().unmix(y2))
}

pub fn build(root: &Path, c: &OsCase) -> Built {
    let over = c.pre == 5;
    let cap_dir = if over { 2 } else { 1 << 20 };
    let wspec = if c.fe == 1 { DirSpec::Sharded { dir: "W".into(), shards: 2, cap: cap_dir * 2 } } else { DirSpec::Plain { dir: "W".into(), cap: cap_dir } };
    let key = target_key();
    let others: Vec<KeySpec> = (1..=4).map(sibling_key).collect();
    let stacked = (5..=12).contains(&c.op);
    let stack = if stacked { Some(StackSpec { writer: Some(wspec.clone()), readers: vec![DirSpec::Plain { dir: "R".into(), cap: 0 }], checker: Checker::None, auto_sync: true }) } else { None };
    let target_dir = wspec.candidate_dirs(root, &key)[0].clone();
    let old = now_ns() - 86_400_000_000_000;
    let mut pre_writer = BTreeMap::new();
    let mut pre_reader = BTreeMap::new();
    let plant = |dir: &Path, k: &KeySpec, writer: u32, slot: i128, marked: bool, size: usize| -> Val {
        let v = Val::new(&k.name, writer, 0, size);
        let p = dir.join(&k.name);
        plant_file(&p, &v.encode(), 0o444);
        let m = old + slot * 1_000_000_000;
        set_times_ns(&p, if marked { m + 1 } else { m - 120_000_000_000 }, m).unwrap();
        v
    };
    if stacked {
        crate::shim::bypass(|| std::fs::create_dir_all(root.join("R")).unwrap());
        // the reader always holds one unrelated entry; the target only for the promotion pre-state
        pre_reader.insert(others[3].name.clone(), plant(&root.join("R"), &others[3], 60, 0, false, 17));
        if c.pre == 6 {
            pre_reader.insert(key.name.clone(), plant(&root.join("R"), &key, 61, 0, false, c.size));
        }
    }
    match c.pre {
        0 => {}
        1 => crate::shim::bypass(|| std::fs::create_dir_all(&target_dir).unwrap()),
        2 => crate::shim::bypass(|| std::fs::create_dir_all(root.join("W")).unwrap()),
        3 | 6 => {
            for (i, o) in others.iter().take(2).enumerate() {
                pre_writer.insert(o.name.clone(), plant(&target_dir, o, 50, i as i128, i == 0, 17));
            }
        }
        4 => {
            pre_writer.insert(key.name.clone(), plant(&target_dir, &key, 51, 0, false, c.size));
            pre_writer.insert(others[0].name.clone(), plant(&target_dir, &others[0], 50, 1, true, 17));
        }
        _ => {
            // over capacity: 4 entries for a directory capacity of 2; o1 (oldest) and o3 carry read marks
            for (i, o) in others.iter().enumerate() {
                pre_writer.insert(o.name.clone(), plant(&target_dir, o, 50, i as i128, i % 2 == 0, 17));
            }
            // stale debris from an earlier crash, to be removed by the maintenance
            // (many of them: a cleanup that only handles a bounded batch must not leave the rest forever)
            for i in 0..20 {
                let p = target_dir.join(".kismet_temp").join(format!("stale-debris-{}", i));
                plant_file(&p, b"debris", 0o600);
                set_times_ns(&p, old, old).unwrap();
            }
        }
    }
    Built { case: c.clone(), wspec, stack, key, others, new_val: Val::new(KEY, 1, 1, c.size), pre_writer, pre_reader, target_dir }
}

/// Runs the operation of the case on a fresh handle, under whatever world/fault the calling
/// thread has configured. `begin_op` is called right before the library is entered.
pub fn run_op(root: &Path, b: &Built) -> Ret {
    script_rng(b.case.fire, 1);
    let c = &b.case;
    let mk = |kind: OpKind| Op { kind, key: b.key.clone(), val: b.new_val.clone(), pop: Pop::Value, nosy: false, link_from: None };
    match c.op {
        0..=3 => {
            let h = open_dir(root, &b.wspec);
            let op = mk([OpKind::Set, OpKind::Put, OpKind::Get, OpKind::Touch][c.op as usize]);
            crate::shim::begin_op(0);
            exec(root, &h, &op).0
        }
        4 => {
            crate::shim::begin_op(0);
            let r = std::panic::catch_unwind(|| match &b.wspec {
                DirSpec::Plain { dir, cap } => kismet_cache::plain::Cache::new(root.join(dir), *cap).temp_dir().map(|p| p.into_owned()),
                DirSpec::Sharded { dir, shards, cap } => kismet_cache::sharded::Cache::new(root.join(dir), *shards, *cap).temp_dir(if b.case.size == 17 { Some(b.key.key()) } else { None }).map(|p| p.into_owned()),
            });
            match r {
                Ok(Ok(p)) => {
                    if p.is_dir() {
                        Ret::Unit
                    } else {
                        Ret::Err(ErrInfo { kind: "HarnessCheck".into(), os: None, msg: format!("temp_dir returned {} which is not a directory", p.display()) })
                    }
                }
                Ok(Err(e)) => Ret::Err(e.into()),
                Err(_) => Ret::Panic("temp_dir panicked".into()),
            }
        }
        5..=12 => {
            let h = open_stack(root, b.stack.as_ref().unwrap());
            let op = mk([OpKind::Set, OpKind::Put, OpKind::SetTemp, OpKind::PutTemp, OpKind::Ensure, OpKind::GouAccept, OpKind::GouPromote, OpKind::GouReplace][c.op as usize - 5]);
            crate::shim::begin_op(0);
            exec(root, &h, &op).0
        }
        _ => {
            crate::shim::begin_op(0);
            let cap = b.wspec.dir_capacity();
            let dir = b.target_dir.clone();
            match std::panic::catch_unwind(move || kismet_cache::raw_cache::prune(dir, cap)) {
                Ok(Ok(_)) => Ret::Unit,
                // pruning a directory that does not exist is an error of the raw API, by contract
                Ok(Err(e)) => Ret::Err(e.into()),
                Err(_) => Ret::Panic("prune panicked".into()),
            }
        }
    }
}

fn cache_dirs(root: &Path, b: &Built) -> Vec<PathBuf> {
    match &b.wspec {
        DirSpec::Plain { dir, .. } => vec![root.join(dir)],
        DirSpec::Sharded { dir, shards, .. } => (0..*shards).map(|s| root.join(dir).join(so::dir_name(s as u64))).collect(),
    }
}

/// C02 clauses (1)-(2): every regular file outside `.kismet_temp` is a complete, read-only value
/// for the key that names it, drawn from `allowed`; everything else is Kismet's own structure or
/// confined to a `.kismet_temp`.
pub fn validity(root: &Path, b: &Built, allowed: &[Val]) -> Result<(), (String, String)> {
    let snap = snapshot(&root.join("W"));
    for (p, e) in &snap {
        let comps: Vec<&str> = p.split('/').collect();
        if comps.iter().any(|c| *c == ".kismet_temp") {
            continue; // debris is confined
        }
        match e.kind {
            'd' => {
                let ok = match &b.wspec {
                    DirSpec::Plain { .. } => false,
                    DirSpec::Sharded { .. } => comps.len() == 1 && comps[0].starts_with(".kismet_"),
                };
                if !ok {
                    return Err(("validity:stray-directory".into(), format!("unexpected directory W/{}", p)));
                }
            }
            'f' => {
                let name = comps[comps.len() - 1];
                let depth_ok = match &b.wspec {
                    DirSpec::Plain { .. } => comps.len() == 1,
                    DirSpec::Sharded { .. } => comps.len() == 2 && comps[0].starts_with(".kismet_") && comps[0] != ".kismet_temp",
                };
                if !depth_ok {
                    return Err(("validity:debris-outside-temp".into(), format!("file W/{} is neither a cached entry nor inside a .kismet_temp", p)));
                }
                match &e.val {
                    Some(v) if v.key == name && allowed.contains(v) => {}
                    Some(v) => return Err(("validity:foreign-or-unknown-value".into(), format!("W/{} holds {} which is not a value written for that key", p, v.header()))),
                    None => return Err(("validity:incomplete-value".into(), format!("W/{} ({} bytes) is not a complete value", p, e.size))),
                }
                if e.mode & 0o222 != 0 {
                    return Err(("validity:writable".into(), format!("W/{} has mode {:o} (write bits)", p, e.mode)));
                }
            }
            _ => return Err(("validity:odd-file-type".into(), format!("W/{} has type {}", p, e.kind))),
        }
    }
    Ok(())
}

/// What the writer currently holds for a key (by reading the tree directly).
pub fn on_disk(root: &Path, b: &Built, k: &KeySpec) -> Option<Val> {
    for d in b.wspec.candidate_dirs(root, k) {
        if let Ok(bytes) = crate::shim::bypass(|| read_noatime(&d.join(&k.name))) {
            return Val::decode(&bytes).ok();
        }
    }
    None
}

/// C02 clause (3): a fresh handle gets normal semantics out of the directory as it is now.
pub fn usable(root: &Path, b: &Built, allowed: &mut Vec<Val>) -> Result<(), (String, String)> {
    let stack = StackSpec { writer: Some(b.wspec.clone()), readers: if b.stack.is_some() { vec![DirSpec::Plain { dir: "R".into(), cap: 0 }] } else { vec![] }, checker: Checker::None, auto_sync: true };
    script_rng(false, 1);
    let direct = open_dir(root, &b.wspec);
    let stacked = open_stack(root, &stack);
    let fail = |what: &str, r: &Ret| ("usable:later-operation-failed".to_string(), format!("{} on the tree left behind returned {}", what, r.short()));
    let mk = |kind: OpKind, k: &KeySpec, v: Val| Op { kind, key: k.clone(), val: v, pop: Pop::Value, nosy: false, link_from: None };
    // get on every key: whatever is on disk, completely
    let mut keys = vec![b.key.clone()];
    keys.extend(b.others.iter().cloned());
    for k in &keys {
        let expect = on_disk(root, b, k);
        let (r, _) = exec(root, &direct, &mk(OpKind::Get, k, b.new_val.clone()));
        match (&r, &expect) {
            (Ret::Miss, None) => {}
            (Ret::File(g), Some(v)) if g.val.as_ref().ok() == Some(v) => {}
            _ => return Err(fail(&format!("get({}) [on disk: {:?}]", k.name, expect.as_ref().map(|v| v.header())), &r)),
        }
        let (r, _) = exec(root, &direct, &mk(OpKind::Touch, k, b.new_val.clone()));
        if r != Ret::Bool(expect.is_some()) {
            return Err(fail(&format!("touch({})", k.name), &r));
        }
    }
    // set a new value then get it
    let v2 = Val::new(KEY, 2, 2, 17);
    allowed.push(v2.clone());
    let (r, _) = exec(root, &direct, &mk(OpKind::Set, &b.key, v2.clone()));
    if r != Ret::Unit {
        return Err(fail("set(key)", &r));
    }
    let (r, _) = exec(root, &direct, &mk(OpKind::Get, &b.key, v2.clone()));
    if r.val() != Some(&v2) {
        return Err(fail("get(key) after set", &r));
    }
    // put on the existing key keeps it; put on a fresh key inserts
    let v3 = Val::new(KEY, 3, 3, 17);
    let (r, _) = exec(root, &direct, &mk(OpKind::Put, &b.key, v3));
    if r != Ret::Unit {
        return Err(fail("put(key)", &r));
    }
    let (r, _) = exec(root, &stacked, &mk(OpKind::Get, &b.key, v2.clone()));
    if r.val() != Some(&v2) {
        return Err(fail("stacked get(key) after put on existing", &r));
    }
    let fresh = KeySpec::new("fresh", 5, 6);
    let v4 = Val::new("fresh", 4, 4, 17);
    allowed.push(v4.clone());
    let (r, _) = exec(root, &stacked, &mk(OpKind::Ensure, &fresh, v4.clone()));
    if r.val() != Some(&v4) {
        return Err(fail("ensure(fresh)", &r));
    }
    // forced maintenance through a write with the trigger scripted to fire
    script_rng(true, 1);
    let v5 = Val::new("fresh", 5, 5, 17);
    allowed.push(v5.clone());
    let (r, _) = exec(root, &direct, &mk(OpKind::Set, &fresh, v5));
    if r != Ret::Unit {
        return Err(fail("set(fresh) with maintenance firing", &r));
    }
    script_rng(false, 1);
    Ok(())
}

/// C02 clause (4): young debris survives maintenance; once older than the limit it is removed by
/// a maintenance of its directory.
pub fn debris_lifecycle(root: &Path, b: &Built, allowed: &mut Vec<Val>) -> Result<u32, (String, String)> {
    let list_debris = || -> Vec<PathBuf> {
        let mut v = Vec::new();
        for d in cache_dirs(root, b) {
            if let Ok(rd) = crate::shim::bypass(|| std::fs::read_dir(d.join(".kismet_temp"))) {
                for e in rd.flatten() {
                    if e.path().is_file() {
                        v.push(e.path());
                    }
                }
            }
        }
        v
    };
    let debris = list_debris();
    let young: Vec<PathBuf> = debris.iter().filter(|p| p.file_name().map(|n| !n.to_string_lossy().starts_with("stale-debris")).unwrap_or(true)).cloned().collect();
    let mut sweep = |round: u32, allowed: &mut Vec<Val>| -> Result<(), (String, String)> {
        script_rng(true, 0);
        for (i, d) in cache_dirs(root, b).iter().enumerate() {
            if !d.join(".kismet_temp").exists() {
                continue;
            }
            // a write whose trigger fires maintains the directory it writes to; pick a key living there
            let k = match &b.wspec {
                DirSpec::Plain { .. } => KeySpec::new(&format!("sweeper-r{}", round), 1, 2),
                DirSpec::Sharded { .. } => {
                    let y = so::boundary(i as u64, 2).wrapping_add(77 + round as u64);
                    KeySpec::new(&format!("sweeper{}-r{}", i, round), so::primary().unmix(y), so::secondary().unmix(y))
                }
            };
            let v = Val::new(&k.name, 9, round, 17);
            allowed.push(v.clone());
            let h = open_dir(root, &b.wspec);
            kismet_cache::verif_hooks::script_shards(std::iter::empty(), Some(1 - i as u64 % 2));
            let (r, _) = exec(root, &h, &Op { kind: OpKind::Set, key: k, val: v, pop: Pop::Value, nosy: false, link_from: None });
            if r != Ret::Unit {
                return Err(("usable:later-operation-failed".into(), format!("sweeping write returned {}", r.short())));
            }
        }
        Ok(())
    };
    // a maintenance while the debris is young leaves it alone
    sweep(0, allowed)?;
    // ... but the debris that was already older than the limit is removed by that one maintenance
    let old_left: Vec<PathBuf> = list_debris().into_iter().filter(|p| p.file_name().map(|n| n.to_string_lossy().starts_with("stale-debris")).unwrap_or(false)).collect();
    if !old_left.is_empty() {
        return Err(("debris:stale-not-removed".into(), format!("{} temporary files older than the limit survived a maintenance of their directory (e.g. {})", old_left.len(), old_left[0].display())));
    }
    for p in &young {
        if !p.exists() {
            return Err(("debris:young-removed".into(), format!("young temporary file {} was removed by maintenance", p.display())));
        }
    }
    // back-date, then a maintenance of each directory that holds debris must remove all of it
    let two_hours_ago = now_ns() - 2 * 3_600_000_000_000;
    for p in &debris {
        let _ = set_times_ns(p, two_hours_ago, two_hours_ago);
    }
    sweep(1, allowed)?;
    // Debris that is still hard-linked to a live entry (death between link and unlink) shares its
    // inode, hence its mtime: when the maintenance above re-stamped that entry, the debris became
    // young again by the library's own measure (mtime). Only debris that is still older than the
    // limit after the maintenance counts.
    let left: Vec<PathBuf> = list_debris()
        .into_iter()
        .filter(|p| crate::shim::bypass(|| std::fs::metadata(p)).map(|m| {
            use std::os::unix::fs::MetadataExt;
            now_ns() - (m.mtime() as i128 * 1_000_000_000 + m.mtime_nsec() as i128) > 3_600_000_000_000
        }).unwrap_or(false))
        .collect();
    if !left.is_empty() {
        return Err(("debris:stale-not-removed".into(), format!("debris older than the limit survived maintenance of its directory: {:?}", left)));
    }
    Ok(debris.len() as u32)
}

pub fn clean(root: &Path) {
    crate::shim::bypass(|| {
        if let Ok(rd) = std::fs::read_dir(root) {
            for e in rd.flatten() {
                let _ = std::fs::remove_dir_all(e.path());
            }
        }
    })
}
