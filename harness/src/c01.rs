//! C01 — readers never observe partial, mixed or foreign content.
use crate::c05::{gen_with, strategies, Gen};
use crate::common::*;
use crate::fe::*;
use crate::sched::*;
use serde_json::json;
use std::collections::BTreeSet;

pub fn judge_exec(l: &Layout, progs: &[Vec<POp>], ex: &ExecOut) -> Result<bool, (String, String)> {
    if let Some(m) = &ex.monitor_err {
        return Err(("c01:torn-publication".into(), format!("at a scheduling point, with every participant paused: {}", m)));
    }
    // values anybody supplied, per key name
    let mut supplied: BTreeSet<(String, u32, u32)> = BTreeSet::new();
    for k in l.preload_writer.iter() {
        supplied.insert((key_for(*k).name, 60, *k as u32));
    }
    for k in l.preload_reader.iter() {
        supplied.insert((key_for(*k).name, 61, *k as u32));
    }
    for (tid, prog) in progs.iter().enumerate() {
        for (i, p) in prog.iter().enumerate() {
            let name = if p.kind == PKind::Maintain { format!("m{}", tid) } else { key_for(p.key).name };
            supplied.insert((name, tid as u32 + 1, i as u32));
        }
    }
    let mut overlapped = false;
    for h in &ex.hist {
        if let Ret::File(g) = &h.ret {
            let want = key_for(h.pop.key).name;
            match &g.val {
                Err(e) => {
                    return Err(("c01:partial-content".into(), format!("participant {} op #{} {:?}({}) obtained a handle that yields {} bytes which are not one complete value: {}", h.tid, h.op, h.pop.kind, want, g.raw_len, e)));
                }
                Ok(v) => {
                    if v.key != want {
                        return Err(("c01:foreign-content".into(), format!("participant {} op #{} {:?}({}) read a value written for key {}", h.tid, h.op, h.pop.kind, want, v.key)));
                    }
                    if !supplied.contains(&(v.key.clone(), v.writer, v.seq)) {
                        return Err(("c01:invented-content".into(), format!("participant {} op #{} {:?}({}) read {} which nobody supplied", h.tid, h.op, h.pop.kind, want, v.header())));
                    }
                }
            }
            // did a write to the same key by somebody else overlap this lookup?
            if ex.hist.iter().any(|o| o.tid != h.tid && o.pop.key % 3 == h.pop.key % 3 && matches!(o.pop.kind, PKind::Set | PKind::Put | PKind::Ensure | PKind::Promote | PKind::Replace | PKind::SetOtherFs) && o.call_seq < h.ret_seq && h.call_seq < o.ret_seq) {
                overlapped = true;
            }
        }
    }
    Ok(overlapped)
}

fn op_kinds(layout_kind: u8) -> Vec<PKind> {
    let mut v = vec![PKind::Set, PKind::Put, PKind::Get, PKind::Get, PKind::Touch, PKind::Maintain, PKind::RoGet, PKind::Ensure, PKind::SetOtherFs];
    if layout_kind >= 2 {
        v.extend([PKind::Ensure, PKind::Promote, PKind::Replace]);
    }
    v
}

fn opts() -> RunOpts {
    RunOpts { yield_data: true, monitor: true, budget: 0 }
}

pub fn replay(v: &serde_json::Value) -> Result<(), String> {
    if v.get("stress").is_some() {
        let c: crate::stress::StressCase = serde_json::from_value(v["stress"].clone()).map_err(|e| e.to_string())?;
        drop_privileges();
        let scratch = Scratch::new("c01s");
        for _ in 0..10 {
            if let Some((s, d)) = crate::stress::run(&scratch.path, &c).content_violation {
                return Err(format!("{}: {}", s, d));
            }
        }
        return Ok(());
    }
    let c: ConcCase = serde_json::from_value(v["case"].clone()).map_err(|e| e.to_string())?;
    drop_privileges();
    let scratch = Scratch::new("c01r");
    prepare(&scratch.path, &c.layout);
    let ex = run_conc(&scratch.path, &c.layout, &c.progs, &c.strategy, opts());
    judge_exec(&c.layout, &c.progs, &ex).map(|_| ()).map_err(|(s, d)| format!("{}: {}", s, d))
}

fn shape(g: &Gen, variant: u64) -> Gen {
    let mut g = g.clone();
    // multi-chunk values are rare (they multiply the number of scheduling points)
    for p in g.progs.iter_mut() {
        for o in p.iter_mut() {
            if o.size == 4 && variant % 4 != 0 {
                o.size = 3;
            }
        }
    }
    g.layout.checker = g.layout.kind >= 2 && variant % 3 == 0;
    g
}

pub fn run(ctx: &Ctx) -> Report {
    let mut rep = Report::default();
    rep.assumptions.insert(drop_privileges());
    let scratch = Scratch::new("c01");
    let root = scratch.path.clone();
    let sets = ctx.share(ctx.scale(160, 10000)) as u32;
    let rep_cell = std::cell::RefCell::new(&mut rep);
    let counter = std::cell::Cell::new(0u64);
    let failing: std::cell::RefCell<Option<(ConcCase, String, String)>> = std::cell::RefCell::new(None);
    let found = prop_search(ctx, 1, sets, 30, &gen_with(false, vec![0, 1, 2, 3], vec![0, 1, 2], 2, op_kinds, 2), |g, exploring| {
        counter.set(counter.get() + 1);
        let g = shape(g, fnv(format!("{:?}", g.progs).as_bytes()));
        for s in strategies(&root, &g, opts(), true) {
            prepare(&root, &g.layout);
            let ex = run_conc(&root, &g.layout, &g.progs, &s, opts());
            clean(&root);
            let r = judge_exec(&g.layout, &g.progs, &ex);
            if exploring {
                let mut rep = rep_cell.borrow_mut();
                let nontrivial = matches!(r, Ok(true));
                rep.case(if nontrivial { Some(fnv(format!("{:?}{:?}{:?}", g.layout, g.progs, ex.picks).as_bytes())) } else { None });
                rep.extra_add("scheduling_points_monitored", ex.sched_steps);
                rep.label(match s { Sched::Walk(_) => "strategy:random walk", Sched::Pct { .. } => "strategy:PCT", Sched::Preempt2 { .. } => "strategy:two preemptions (sampled)", Sched::Segments(_) => "strategy:explicit multi-preemption segments (sampled)", _ => "strategy:single preemption (enumerated)" });
                rep.label(["layout:plain", "layout:sharded", "layout:stacked over plain", "layout:stacked over sharded"][g.layout.kind as usize % 4]);
                if g.layout.shared_handle {
                    rep.label("shared handle");
                }
                if g.progs.iter().any(|p| p.iter().any(|o| o.kind == PKind::RoGet)) {
                    rep.label("with a ReadOnlyCache reader over the writers' directory");
                }
                if g.progs.iter().any(|p| p.iter().any(|o| o.hold)) {
                    rep.label("handle held across later operations");
                }
                if nontrivial && rep.samples.len() < 2 {
                    let smp = json!({"layout": g.layout, "programs": g.progs, "strategy": s, "picks": ex.picks});
                    rep.sample(smp);
                }
            }
            if let Err((sig, detail)) = r {
                *failing.borrow_mut() = Some((ConcCase { layout: g.layout.clone(), progs: g.progs.clone(), strategy: s.clone() }, sig.clone(), detail.clone()));
                return Err(format!("{}|{}", sig, detail));
            }
        }
        Ok(())
    });
    drop(rep_cell);
    if found.is_some() {
        if let Some((case, sig, detail)) = failing.borrow().clone() {
            rep.violation(&sig, detail, json!({"case": case}));
        }
    }
    crate::stress::phase(ctx, "C01", &mut rep);
    crate::shim::bypass(|| {
        let _ = std::fs::remove_dir_all(format!("/var/tmp/kv-xfs-{}", std::process::id()));
    });
    rep
}
