//! C05 — concurrent activity never surfaces as an error or a panic.
use crate::common::*;
use crate::fe::*;
use crate::sched::*;
use proptest::prelude::*;
use serde_json::json;
use std::path::Path;

pub fn judge_exec(ex: &ExecOut) -> Result<u32, (String, String)> {
    for h in &ex.hist {
        match &h.ret {
            Ret::Err(e) => {
                let sig = format!("c05:error:{}:{}", match h.pop.kind { PKind::Get | PKind::RoGet => "lookup", PKind::Touch => "touch", _ => "write" }, e.kind);
                return Err((sig, format!("participant {} op #{} {:?}(k{}) returned Err({} {:?}: {}) under concurrency", h.tid, h.op, h.pop.kind, h.pop.key % 3, e.kind, e.os, e.msg)));
            }
            Ret::Panic(m) => return Err(("c05:panic".into(), format!("participant {} op #{} {:?} panicked: {}", h.tid, h.op, h.pop.kind, m))),
            Ret::File(g) => {
                if let Err(e) = &g.val {
                    return Err(("c05:garbage".into(), format!("participant {} op #{} {:?} returned a file that is not a complete value: {}", h.tid, h.op, h.pop.kind, e)));
                }
            }
            _ => {}
        }
    }
    // races actually lost: calls that failed with ENOENT/EEXIST on a path another participant mutated
    let mut lost = 0u32;
    for e in ex.events.iter().filter(|e| e.ret < 0 && (e.errno == libc::ENOENT || e.errno == libc::EEXIST || e.errno == libc::ENOTEMPTY) && !e.path.is_empty()) {
        let target = if e.path2.is_empty() { &e.path } else { &e.path2 };
        if ex.events.iter().any(|o| o.tid != e.tid && o.ok() && (o.path == *target || o.path2 == *target) && matches!(o.call, "rename" | "link" | "unlink" | "mkdir")) {
            lost += 1;
        }
    }
    Ok(lost)
}

fn kinds_for(l: u8) -> Vec<PKind> {
    let mut v = vec![PKind::Set, PKind::Put, PKind::Get, PKind::Touch, PKind::Ensure, PKind::Maintain];
    if l >= 2 {
        v.push(PKind::Promote);
        v.push(PKind::Replace);
    }
    v
}

#[derive(Clone, Debug)]
pub struct Gen {
    pub layout: Layout,
    pub progs: Vec<Vec<POp>>,
    pub walks: Vec<Vec<u8>>,
    pub pct: Vec<(Vec<u8>, Vec<u32>)>,
    /// two-preemption schedules: (participant order selector, steps of the first, steps of the second)
    pub pre2: Vec<(u8, u32, u32)>,
    /// explicit segment schedules (participant, steps) x 3-6
    pub segs: Vec<Vec<(u8, u8)>>,
}

pub fn gen(with_adversary: bool, kinds: Vec<u8>, caps: Vec<usize>, max_ops: usize) -> impl Strategy<Value = Gen> {
    gen_with(with_adversary, kinds, caps, max_ops, kinds_for, 2)
}

pub fn gen_with(with_adversary: bool, kinds: Vec<u8>, caps: Vec<usize>, max_ops: usize, op_kinds: fn(u8) -> Vec<PKind>, keys: u8) -> impl Strategy<Value = Gen> {
    gen_layout(kinds, caps).prop_flat_map(move |layout| {
        let k = op_kinds(layout.kind);
        let adv = if with_adversary { prop::collection::vec(gen_prog(vec![PKind::Adversary], 2, 3), 0..2).boxed() } else { Just(vec![]).boxed() };
        (Just(layout), prop::collection::vec(gen_prog(k, max_ops, keys), 2..4), adv, prop::collection::vec(prop::collection::vec(0u8..4, 0..60), 0..6), prop::collection::vec((prop::collection::vec(0u8..8, 4), prop::collection::vec(0u32..150, 0..4)), 0..4), prop::collection::vec((0u8..6, 0u32..70, 0u32..50), 0..8), prop::collection::vec(prop::collection::vec((0u8..3, 1u8..16), 3..7), 0..10))
    })
    .prop_map(|(layout, mut progs, adv, walks, pct, pre2, segs)| {
        progs.truncate(if adv.is_empty() { 3 } else { 2 });
        progs.extend(adv);
        let mut layout = layout;
        // a third of the layouts carry aged debris of crashed writers in every temp directory
        layout.stale_debris = fnv(format!("{:?}", progs).as_bytes()) % 3 == 0;
        Gen { layout, progs, walks, pct, pre2, segs }
    })
}

pub fn strategies(root: &Path, g: &Gen, opts: RunOpts, enumerate: bool) -> Vec<Sched> {
    let mut v: Vec<Sched> = Vec::new();
    if enumerate {
        let solo = solo_steps(root, &g.layout, &g.progs, opts);
        v.extend(single_preemptions(g.progs.len(), &solo));
    }
    v.extend(g.walks.iter().cloned().map(Sched::Walk));
    v.extend(g.pct.iter().cloned().map(|(prio, changes)| Sched::Pct { prio, changes }));
    let n = g.progs.len();
    for (sel, at, at2) in &g.pre2 {
        // the sel-th rotation/reflection of the participant order
        let mut order: Vec<usize> = (0..n).collect();
        order.rotate_left(*sel as usize % n);
        if sel / 3 == 1 {
            order[1..].reverse();
        }
        v.push(Sched::Preempt2 { order, at: *at, at2: *at2 });
    }
    v.extend(g.segs.iter().cloned().map(Sched::Segments));
    v
}

pub fn replay(v: &serde_json::Value) -> Result<(), String> {
    if v.get("stress").is_some() {
        let c: crate::stress::StressCase = serde_json::from_value(v["stress"].clone()).map_err(|e| e.to_string())?;
        drop_privileges();
        let scratch = Scratch::new("c05s");
        for _ in 0..10 {
            if let Some((s, d)) = crate::stress::run(&scratch.path, &c).error_violation {
                return Err(format!("{}: {}", s, d));
            }
        }
        return Ok(());
    }
    let c: ConcCase = serde_json::from_value(v["case"].clone()).map_err(|e| e.to_string())?;
    drop_privileges();
    let scratch = Scratch::new("c05r");
    prepare(&scratch.path, &c.layout);
    let ex = run_conc(&scratch.path, &c.layout, &c.progs, &c.strategy, RunOpts::default());
    judge_exec(&ex).map(|_| ()).map_err(|(s, d)| format!("{}: {}", s, d))
}

pub fn run(ctx: &Ctx) -> Report {
    let mut rep = Report::default();
    rep.assumptions.insert(drop_privileges());
    if !is_unprivileged() {
        rep.assumptions.insert("running as root: permission races (EACCES) cannot be observed".into());
    }
    let scratch = Scratch::new("c05");
    let root = scratch.path.clone();
    let opts = RunOpts::default();
    let sets = ctx.share(ctx.scale(480, 24000)) as u32;
    let rep_cell = std::cell::RefCell::new(&mut rep);
    let failing: std::cell::RefCell<Option<(ConcCase, String, String)>> = std::cell::RefCell::new(None);
    let found = prop_search(ctx, 5, sets, 40, &gen(true, vec![0, 1, 2, 3], vec![1, 2, 3], 2), |g, exploring| {
        let strats = strategies(&root, g, opts, true);
        for s in strats {
            prepare(&root, &g.layout);
            let ex = run_conc(&root, &g.layout, &g.progs, &s, opts);
            clean(&root);
            let r = judge_exec(&ex);
            if exploring {
                let mut rep = rep_cell.borrow_mut();
                let lost = *r.as_ref().unwrap_or(&0);
                rep.case(if lost > 0 { Some(fnv(format!("{:?}{:?}{:?}", g.layout, g.progs, ex.picks).as_bytes())) } else { None });
                rep.extra_add("scheduling_steps", ex.sched_steps);
                rep.label(match s { Sched::Walk(_) => "strategy:random walk", Sched::Pct { .. } => "strategy:PCT", Sched::Preempt2 { .. } => "strategy:two preemptions (sampled)", Sched::Segments(_) => "strategy:explicit multi-preemption segments (sampled)", _ => "strategy:single preemption (enumerated)" });
                rep.label(["layout:plain", "layout:sharded", "layout:stacked over plain", "layout:stacked over sharded"][g.layout.kind as usize % 4]);
                if g.progs.iter().any(|p| p.iter().any(|o| o.kind == PKind::Adversary)) {
                    rep.label("with adversary");
                }
                if g.layout.dirs_missing {
                    rep.label("directories initially missing");
                }
                if g.layout.stale_debris {
                    rep.label("aged debris in the temp directories");
                }
                if lost > 0 && rep.samples.len() < 2 {
                    let smp = json!({"layout": g.layout, "programs": g.progs, "strategy": s, "picks": ex.picks, "races_lost": lost});
                    rep.sample(smp);
                }
            }
            if let Err((sig, detail)) = r {
                *failing.borrow_mut() = Some((ConcCase { layout: g.layout.clone(), progs: g.progs.clone(), strategy: s.clone() }, sig.clone(), detail.clone()));
                return Err(format!("{}|{}", sig, detail));
            }
        }
        Ok(())
    });
    drop(rep_cell);
    if found.is_some() {
        if let Some((case, sig, detail)) = failing.borrow().clone() {
            rep.violation(&sig, detail, json!({"case": case}));
        }
    }
    // ---- three single-operation participants on ONE key, every schedule in which one of them is
    // preempted twice (by the two others in turn): the smallest shape that needs two preemptions
    {
        fn triple_kinds(_: u8) -> Vec<PKind> {
            vec![PKind::Put, PKind::RawPut, PKind::RawPut, PKind::Set, PKind::Ensure, PKind::Touch, PKind::Get, PKind::Adversary, PKind::Adversary]
        }
        let sets = ctx.share(ctx.scale(96, 3000)) as u32;
        let rep_cell = std::cell::RefCell::new(&mut rep);
        let failing: std::cell::RefCell<Option<(ConcCase, String, String)>> = std::cell::RefCell::new(None);
        let strat = (gen_layout(vec![0, 1, 2, 3], vec![2, 3, 1 << 30]), prop::collection::vec(gen_prog(triple_kinds(0), 1, 1), 3), any::<bool>());
        let found = prop_search(ctx, 55, sets, 30, &strat, |(layout, progs, present), exploring| {
            let mut layout = layout.clone();
            layout.preload_writer = if *present { vec![0] } else { vec![] };
            layout.dirs_missing = false;
            let solo = solo_steps(&root, &layout, progs, opts);
            for s in double_preemptions(&solo) {
                prepare(&root, &layout);
                let ex = run_conc(&root, &layout, progs, &s, opts);
                clean(&root);
                let r = judge_exec(&ex);
                if exploring {
                    let mut rep = rep_cell.borrow_mut();
                    let lost = *r.as_ref().unwrap_or(&0);
                    rep.case(if lost > 0 { Some(fnv(format!("{:?}{:?}{:?}", layout, progs, ex.picks).as_bytes())) } else { None });
                    rep.label("strategy:one participant preempted twice (enumerated, 3 single-operation participants on one key)");
                }
                if let Err((sig, detail)) = r {
                    *failing.borrow_mut() = Some((ConcCase { layout: layout.clone(), progs: progs.clone(), strategy: s.clone() }, sig.clone(), detail.clone()));
                    return Err(format!("{}|{}", sig, detail));
                }
            }
            Ok(())
        });
        drop(rep_cell);
        if found.is_some() {
            if let Some((case, sig, detail)) = failing.borrow().clone() {
                rep.violation(&sig, detail, json!({"case": case}));
            }
        }
    }
    crate::stress::phase(ctx, "C05", &mut rep);
    rep
}
