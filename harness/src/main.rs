//! kv — orchestrator and workers for the kismet-cache property checks.
//!
//!   kv run <ID> <quick|thorough>      spawn workers, merge, write evidence, exit 0/1/2
//!   kv worker <ID> <tier> <seed> <i> <n>
//!   kv replay <file>                   re-execute one saved case
use kvlib::common::*;
use serde_json::json;
use std::io::Read;
use std::process::{Command, Stdio};
use std::time::{Duration, Instant};

struct CheckDef {
    id: &'static str,
    level: &'static str,
    workers: usize,
    rule: &'static str,
    run: fn(&Ctx) -> Report,
    replay: fn(&serde_json::Value) -> Result<(), String>,
    assumptions: &'static [&'static str],
}

/// thorough tier: coverage-guided campaign (libFuzzer target, total executions, max input length)
fn fuzz_plan(id: &str) -> Option<(&'static str, u64, u32)> {
    match id {
        "C08" => Some(("fuzz_planner", 2_000_000, 4096)),
        "C12" => Some(("fuzz_shards", 1_000_000, 32)),
        "C16" => Some(("fuzz_names", 1_000_000, 300)),
        "C07" => Some(("fuzz_dir", 600_000, 24)),
        "C11" => Some(("fuzz_history", 150_000, 420)),
        "C05" => Some(("fuzz_conc_err", 120_000, 96)),
        "C01" => Some(("fuzz_conc_content", 60_000, 96)),
        _ => None,
    }
}

fn registry() -> Vec<CheckDef> {
    vec![CheckDef {
        id: "C08",
        level: "exploration",
        workers: 16,
        rule: "exhaustive enumeration of all sequences of <=7 (thorough: <=8, capacities 0..=9) identity-tagged entries over 4 ranks x 2 flags x capacities 0..=8, plus proptest-generated inputs up to 5000 entries (full-width, 3-value, sorted, reverse-sorted, near-u64::MAX ranks; capacities 0,1,n-1,n,n+1,usize::MAX,n/2,random); a case is non-trivial when n > capacity (the planner must evict); enumerated cases are distinct by construction, random ones are counted by hash of (input, capacity)",
        run: kvlib::c08::run,
        replay: kvlib::c08::replay,
        assumptions: &["the closed-form acceptance predicate is the oracle; it is cross-checked in both directions against brute-force enumeration of all tie orders of the textbook queue on every input of length <=4 (quick) / <=5 (thorough) over 3 ranks before any plan is judged"],
    },
    CheckDef {
        id: "C12",
        level: "exploration",
        workers: 16,
        rule: "proptest-generated (hash, secondary hash, shard count) from classes {edge hashes, primary/secondary image at a shard boundary +-1 (via the modular inverse of the mixer), colliding images, collision on the last shard, equal hashes, uniform} x shard counts 0..70 and {127,128,255,256,257,4096,65535,65536,65537,2^20}; four observation kinds (probe trace on an empty directory via get/touch/ReadOnlyCache, put on a fresh handle + find through other handles/front-ends, entry planted in secondary vs third shard, handle with skewed load estimates with copies in both shards); every case is non-trivial; distinct by hash of (hash, secondary, n, kind)",
        run: kvlib::c12::run,
        replay: kvlib::c12::replay,
        assumptions: &["oracle: own SHA-256 + multiply-add + fixed-point scaling reimplementation, written from the documentation", "probe paths are observed through in-binary libc interposition (open attempts under the cache root)"],
    },
    CheckDef {
        id: "C07",
        level: "exploration",
        workers: 16,
        rule: "proptest-generated directory populations (0-12 files, mtimes from 6 slots days in the past so ties abound, each file unread / atime==mtime / atime>mtime, 0-2 stray subdirectories one of them non-empty) x capacity 0..n+1 x route {raw_cache::prune, plain set, plain put, sharded set, stacked ensure on a plain writer, stacked set on a sharded writer} x fresh or existing target key, with the trigger scripted to fire; plus, for generated populations, a peer removing a read-marked file immediately before every call of prune after the listing (metamorphic relation against the undisturbed run); non-trivial = maintenance had to evict AND the population had an mtime tie or a read-marked file at or before the last victim (vanish variant: the injected point was reached); distinct by hash of the generated case",
        run: kvlib::c07::run,
        replay: kvlib::c07::replay,
        assumptions: &["oracle: DirExplainer (before listing as captured by the shim at opendir time / before snapshot, after snapshot) + the brute-force-validated clock-queue predicate of C08", "re-stamped files carrying identical new mtimes are accepted in any relative order", "tmpfs under /dev/shm, nanosecond timestamps"],
    },
    CheckDef {
        id: "C17",
        level: "exploration",
        workers: 16,
        rule: "proptest-generated directory populations: 0-9 key-named files (6 mtime slots, 3 read-mark states), 0-2 dot-prefixed application files, optional .git/ directory and nested/deep/ directory with content, 0-5 files directly in .kismet_temp with mtimes at limit-{1h,1s,1ns}, exactly the limit, limit+{1ns,1s,59min} and 1-2 hours in the FUTURE (clock skew), optional subdirectory inside .kismet_temp (own mtime and inner files across the same offsets, inner names colliding with top-level temp names); capacity 0..n+1; plain or 2-shard cache; maintenance forced through a set/put of a fresh key with the trigger scripted to fire under a frozen virtual clock; non-trivial = maintenance evicted AND (a dot file is present or a temp file lies within 1 s of the limit)",
        run: kvlib::c17::run,
        replay: kvlib::c17::replay,
        assumptions: &["CLOCK_REALTIME is served from a frozen virtual clock by the shim so that the one-hour boundary is exact", "files nested in subdirectories of .kismet_temp that are older than the limit may or may not be removed (not demanded); younger ones must survive", "oracle for the key-named population: DirExplainer + clock-queue predicate"],
    },
    CheckDef {
        id: "C16",
        level: "exploration",
        workers: 16,
        rule: "proptest grammar of names (1-4 segments from {alnum, '.', '..', empty, unicode, 255/256-byte, .kismet_temp, .kismet_0000, names of sentinel files and directories, backslash, NUL, space, '-rf'} joined by '/', optional reserved first byte, optional trailing '/', '/.', '/..') x {get, touch, set, put, set_temp_file, put_temp_file, ensure, get_or_update x3} x {plain, sharded, stacked plain/sharded writer + reader, stacked without writer, read-only} x {capacity 1, huge}, inside a sentinel tree (outside file, sibling cache, nested subdirectory, dot files, young and stale temp files) with the trigger scripted to fire; non-trivial = the name has a feature beyond [A-Za-z0-9_-]+; distinct by hash of the case",
        run: kvlib::c16::run,
        replay: kvlib::c16::replay,
        assumptions: &["mutating calls are observed through libc interposition; the sentinel tree is compared by recursive snapshot (everything but atime)", "read-only probes (stat/open O_RDONLY) outside the entry's place are not flagged"],
    },
    CheckDef {
        id: "C13",
        level: "exploration",
        workers: 16,
        rule: "exhaustive enumeration of the stack matrix: write side {none, plain, sharded(3)} x read-only levels (all sequences of length 0-2 over {plain, sharded}) x every level holding {nothing, A, B} (sharded levels: in the key's primary or secondary shard) x {get, touch, ensure, get_or_update x {Accept, Promote, Replace}, set, put, set_temp_file, put_temp_file} x populate {value C, value A, error, NotFound} x checker {none, byte-equality} x judge {silent, reads its argument to EOF}, plus the ReadOnlyCache API for get/touch; non-trivial = some level holds the key or the operation writes; distinct by construction",
        run: kvlib::cmatrix::run_c13,
        replay: kvlib::cmatrix::replay_c13,
        assumptions: &["oracle: StackModel, an independent model of the documented stacking semantics (lookup order, hit kind, Accept/Promote/Replace, no-writer behaviour)", "rows whose outcome is decided by a consistency-checker mismatch are judged by C14, not here"],
    },
    CheckDef {
        id: "C14",
        level: "exploration",
        workers: 16,
        rule: "exhaustive enumeration: write side {none, plain, sharded} x 0-3 read-only levels x every level in {absent, A, B} (+secondary-shard placements up to 2 readers) x {get, ensure, get_or_update x {Accept, Promote, Replace}} x populate {A, B, NotFound, other error} x checker {none, byte-equality, panicking, recording}, plus ReadOnlyCache::get; every ensure/get_or_update(Accept|Promote) point with a write cache and a checker runs a second time with the write cache's temporary directory BLOCKED (a regular file named .kismet_temp in its place, so scratch space for the populate comparison cannot be created): the operation may report an error, but if it reports success it is held to the full expectation, checker calls included; non-trivial = at least two copies present, or a hit with a comparable populated value; distinct by construction",
        run: kvlib::cmatrix::run_c14,
        replay: kvlib::cmatrix::replay_c14,
        assumptions: &["oracle: with a checker the call succeeds iff all present copies (and the populated value when compared) are identical; the recording checker logs the two contents of every invocation", "no exact invocation count is demanded, only that every redundant copy is compared and no exhausted handle is shown to the checker"],
    },
    CheckDef {
        id: "C19",
        level: "exploration",
        workers: 16,
        rule: "exhaustive enumeration of the C13 matrix with judges that read their argument to EOF, all four checker settings, populate {A, C, NotFound} and umask {000, 022, 077}; non-trivial = a handle was returned after a judge or checker consumed it, or a file was published into the write cache; distinct by construction",
        run: kvlib::cmatrix::run_c19,
        replay: kvlib::cmatrix::replay_c19,
        assumptions: &["fcntl(F_GETFL)/lseek(SEEK_CUR) are taken on the returned handle before it is read", "the throw-away file served when there is no write side is exempt from the access-mode clause only"],
    },
    CheckDef {
        id: "C15",
        level: "exploration",
        workers: 16,
        rule: "(1) exhaustive enumeration of the C13 matrix extended with read-only levels whose directory does not exist and with the ReadOnlyCache API; (2) proptest-generated histories of 1-39 steps over {get, touch, ensure, get_or_update x3, set, put, set_temp_file, put_temp_file} on stacks with 1-2 read-only levels (plain/sharded, existing or missing, preloaded) and writer {none, plain, sharded} of capacity 2, keys including invalid names, populate {value, NotFound, error}, checker on/off, maintenance firing or not; non-trivial = some filesystem call of the operation reached a read-only root; distinct by construction (matrix) / hash (histories)",
        run: kvlib::c15::run,
        replay: kvlib::c15::replay,
        assumptions: &["a call is mutating if it can create, truncate, write, rename, link, unlink, chmod or set a modification time; futimens with mtime = UTIME_OMIT (atime only) is the single permitted effect", "snapshots compare type, content hash, mode, mtime, inode; atime may only advance"],
    },
    CheckDef {
        id: "C20",
        level: "exploration",
        workers: 16,
        rule: "(1) {get hit, get miss, touch hit, touch miss, set new, set existing, put new, put existing} x {plain, sharded(4), stack depth 1, 2, 3} x {files planted behind a fresh handle, populated through the handle under test} with the write directory holding 0, 10, 100, 2000 other entries and the trigger scripted not to fire: the multiset of intercepted calls must be identical across sizes, no directory may be listed, a lookup makes <= 2 open attempts per cache directory, peak open files <= 2, nothing stays open, no lock; (2) peak (<= 2, <= 3 with a checker), residual descriptors and locking primitives over the whole C14 stack matrix (up to 3 read-only levels, all checkers); non-trivial = a run with >= 100 entries compared against the empty directory, or a matrix point during which at least two files were open at once; distinct by construction",
        run: kvlib::c20::run,
        replay: kvlib::c20::replay,
        assumptions: &["calls are counted by libc interposition; the application's own staging of source files is not counted", "descriptor counts come from the intercepted open/opendir/close/closedir stream and are cross-checked against the shim's table of still-open descriptors after the call"],
    },
    CheckDef {
        id: "C10",
        level: "exploration",
        workers: 16,
        rule: "every capacity k in 0..=200 x 8 scripted draw sequences fed to the trigger through the verification hook {all u64::MAX, all u64::MAX-1, all 1, decrement-1/decrement/decrement+1, random multiples of the decrement +-1, 2^63/u64::MAX alternating, uniform, j*decrement+-1 for small j} x write sequences of 3*max(1,k/3)+2 set/put on fresh and repeated keys, each on a fresh thread (virgin countdown), through plain::Cache or a stacked Cache with a plain writer; plus capacities {2^16, 2^32, 2^62, 2^63, MAX/3, MAX/3+1, MAX/2, MAX-2, MAX-1, MAX} with draws <= 3 (must fire at once) and boundary draws (no overflow/panic); non-trivial = period >= 2 and a scripted draw within +-1 of a multiple of the oracle's decrement ceil(2^64/period) or >= u64::MAX-1; distinct by hash of the case",
        run: kvlib::c10::run,
        replay: kvlib::c10::replay,
        assumptions: &["a write maintains iff the trace shows it opendir the cache directory before its own rename/link", "the trigger's random draws are replaced through the cfg(kismet_verif) hook; draws of 0 are never scripted (the library redraws on 0)", "harness built with overflow-checks on, so arithmetic overflow in the trigger would panic"],
    },
    CheckDef {
        id: "C11",
        level: "exploration",
        workers: 16,
        rule: "proptest-generated histories of 1-199 steps over 3-6 keys whose (hash, secondary hash) are drawn from 8 constants (so primary/secondary images collide and coincide), on {plain, sharded 2-8 shards, stacked over plain, stacked over sharded (optionally with a preloaded read-only level)} with capacities {0,1,2,3,5,8 per directory, never}, 1-3 independent handles, operations {set, put, get, touch, ensure, get_or_update x3, set_temp_file, put_temp_file}, per-step scripted trigger (fire / do not fire) and random-shard draw; after every step the tree is snapshotted and compared with a map model that follows only evictions DirExplainer accepted; non-trivial = the history had an explained eviction, a lookup of a key living in its secondary shard, or >= 2 handles that wrote; distinct by hash of the history",
        run: kvlib::c11::run,
        replay: kvlib::c11::replay,
        assumptions: &["oracle: KvModel (latest set, else first put since absent) + DirExplainer on the directory listing captured by the shim at opendir time", "handles are used one at a time (sequential history); load estimates diverge between handles", "real clock, nanosecond timestamps on tmpfs"],
    },
    CheckDef {
        id: "C09",
        level: "exploration",
        workers: 16,
        rule: "proptest-generated histories of 1-25 steps (+ a final forced maintenance of every directory) over 4 keys on {plain, sharded(2), stacked over plain} with per-directory capacity {2, 3, never}; one written value in five is EMPTY (zero bytes are a legal value; such entries are compared by size and inode); steps = virtual clock advance {0, 1ns, 1ms, 0.6s, 1s, 3s} then {set, put, get and read the handle, get without reading it, touch, ensure, forced maintenance (prune to n-1)} with the trigger scripted to fire or not; atime policy {kernel default with the real clock, emulated relatime, noatime, strict} x stored-timestamp granularity {1ns, 1s, 2s} x 4 clock phases; non-trivial = the history has a read-type operation and a later maintenance in which a read mark decided the victim; distinct by hash of the history",
        run: kvlib::c09::run,
        replay: kvlib::c09::replay,
        assumptions: &["emulated cells: the shim opens every file with O_NOATIME and applies the atime policy itself at the first read through a descriptor (relatime: atime <= mtime => atime := now), truncates every timestamp written or reported to the granularity, and serves CLOCK_REALTIME from a virtual clock", "read mark encoding per the documentation: atime >= mtime", "maintenance inside an operation is judged by DirExplainer on the listing captured at opendir time"],
    },
    CheckDef {
        id: "C03",
        level: "fault_enumeration",
        workers: 16,
        rule: "complete enumeration of {set(path), put(path), set_temp_file, put_temp_file, ensure miss, get_or_update miss, Replace on primary hit, Replace on secondary hit, Promote from a read-only level} x writer {plain, sharded} x value size {17, 8193 (quick) / 1, 17, 4096, 8193, 70000 (thorough)} x key {absent, present} x auto_sync {on, off} x 4 trailing operation lists (get, touch, put, set, maintenance-firing set); for each fault-free run: every fsync call failing in turn (EIO, one shot) and a peer removing the key's entry immediately before every filesystem call of the operation; plus generated trailing histories; non-trivial = a publication event occurred or the injected point was reached; distinct by hash of the case",
        run: kvlib::c03::run,
        replay: kvlib::c03::replay,
        assumptions: &["history invariant on the intercepted trace, per inode: last write/copy_file_range/ftruncate/O_TRUNC < successful fsync < rename/link that makes it visible; no write bit at the moment of publication (stat taken by the shim right before the call); no failed fsync before publication; no write/truncate/chmod/fchmod after visibility", "the application's own writes into its source files happen before the library is called and are not traced", "ordering is checked, not power loss itself"],
    },
    CheckDef {
        id: "C02",
        level: "fault_enumeration",
        workers: 16,
        rule: "complete enumeration of {plain/sharded set, put, get, touch, temp_dir; stacked set, put, set_temp_file, put_temp_file, ensure, get_or_update x {Accept, Promote, Replace}; raw_cache::prune} x pre-state {cache directory missing, empty, shard directories missing, key absent, key present, over capacity with mixed read marks and stale debris, secondary hit to promote} x writer {plain, sharded} x trigger {fires, does not fire}; for each, the fault-free trace gives N and for EVERY k in 0..=N a forked child process is killed (_exit inside the interposer) immediately before filesystem call k; non-trivial = the tree left behind differs from both the pre-state and the completed post-state; distinct by construction (op, pre-state, front-end, trigger, k)",
        run: kvlib::c02::run,
        replay: kvlib::c02::replay,
        assumptions: &["crash = process death between two libc calls (power loss / un-synced data is C03's concern)", "a temp name still hard-linked to a published inode is legal debris", "usability is judged by a fresh handle: get/touch on every key agree with the disk, set+get, put on existing, ensure of a fresh key, a write with maintenance firing; then all debris is back-dated by two hours and a maintenance of each directory must remove it"],
    },
    CheckDef {
        id: "C18",
        level: "fault_enumeration",
        workers: 16,
        rule: "the (operation, pre-state, front-end, trigger) product of C02; for each, every filesystem call k of the fault-free trace x every errno plausible for that call (EIO, ESTALE everywhere; EACCES for path and metadata calls; ENOSPC for creating/writing calls, mkdir, link, rename, fsync; EMFILE for open/opendir; EXDEV for rename and link; EMLINK for link) injected once, the operation then continues (and no call of it may create or truncate a published name in place); non-trivial = the injected call was reached; distinct by construction (op, pre-state, front-end, trigger, k, errno)",
        run: kvlib::c18::run,
        replay: kvlib::c18::replay,
        assumptions: &["a failing close executes the real close first (Linux semantics)", "success is verified against the tree with the shim bypassed; Err although the effect happened is allowed", "ESTALE/ENOENT on a lookup's own open may legitimately turn a hit into a miss (documented as benign)", "the only panic accepted is the documented 'auto_sync failed' of Cache::set/put(path) under an injected fsync failure"],
    },
    CheckDef {
        id: "C05",
        level: "exploration",
        workers: 16,
        rule: "proptest-generated (layout, programs): layout in {plain, sharded 2-3 shards, stacked over plain/sharded with a preloaded read-only level} with capacity 1-3 (every write maintains), shared or separate handles, directories initially missing or not; 2-3 participants x 1-2 operations from {set, put, get, touch, ensure, promote, replace, maintenance-only write} over 2 keys, optionally an adversary unlinking published files; for every program set ALL single-preemption schedules (every participant order x every yield point of the first participant) are enumerated, plus generated random-walk and PCT schedules; an execution is non-trivial when some call lost a race (failed with ENOENT/EEXIST on a path a peer had just created, replaced or removed); distinct by hash of (layout, programs, picks)",
        run: kvlib::c05::run,
        replay: kvlib::c05::replay,
        assumptions: &["threads with their own handles stand in for processes; exactly one participant runs between two scheduling points, every intercepted path-level or metadata call is a scheduling point", "participants run with an unprivileged effective uid (as root, permission races cannot surface)", "complete over one preemption for the generated programs, sampled beyond"],
    },
    CheckDef {
        id: "C04",
        level: "exploration",
        workers: 16,
        rule: "proptest-generated program sets: 2-3 participants x 1-3 operations from {set, put, raw-layer put, set of a value staged on another filesystem (rename fails with EXDEV: it may fail, but a reported success counts as a set), get (read at once or holding the handle), touch} through plain::Cache, or the same plus ensure through a Cache with that plain writer, all on ONE key of a plain directory with capacity 2^40 (no eviction), key initially present or absent, cache directory initially present or missing, shared or separate handles; for every program set ALL single-preemption schedules + generated random-walk and PCT schedules; each execution's call/return history must admit a linearization against the register specification (Wing-Gong search; ensure = get, on miss put, get as three atomic sub-steps inside its interval); non-trivial = at least two operations overlap in time and one of them writes; distinct by hash of (layout, programs, picks)",
        run: kvlib::c04::run,
        replay: kvlib::c04::replay,
        assumptions: &["call/return events are totally ordered by a global counter; exactly one participant runs between two scheduling points", "an operation that returns Err makes no claim (it may or may not have taken effect); such errors are counted and left to C05", "a lookup that holds its handle linearizes at the open, the content being determined by the inode it opened"],
    },
    CheckDef {
        id: "C01",
        level: "exploration",
        workers: 16,
        rule: "proptest-generated program sets on {plain, sharded 2-3 shards, stacked over plain/sharded with a preloaded read-only level, optionally with a byte-equality checker} with per-directory capacity 0-2 (maintenance on every write, including eviction of what was just published), shared or separate handles, directories initially missing or not; 2-3 participants x 1-2 operations from {set, put, ensure, promote, replace, get (read at once, or handle held to the end of the program), touch, maintenance-only write, get through a ReadOnlyCache laid over the writers' directory} over 2 keys with value sizes {1, 17, 4096, 8193, 70000} (one operation kind stages its value on another filesystem so that rename/link fail with EXDEV); data-plane calls (write, copy_file_range, read) are scheduling points too; for every program set ALL single-preemption schedules + generated random-walk and PCT schedules; at EVERY scheduling point all cache directories are scanned with everybody paused; non-trivial = a lookup overlapped in time with a write to the same key by another participant; distinct by hash of (layout, programs, picks)",
        run: kvlib::c01::run,
        replay: kvlib::c01::replay,
        assumptions: &["values are self-describing (key, writer, sequence, length + keyed pseudo-random body), so completeness and provenance are decidable from the bytes", "the kernel executes each libc call atomically; threads stand in for processes", "two copies of a key in a sharded cache under concurrent writers are allowed (documented) and not flagged"],
    },
    CheckDef {
        id: "C06",
        level: "exploration",
        workers: 16,
        rule: "the program sets and layouts of C05 (without adversary) plus a writer that stalled for two hours between creating its temp file and publishing it; (a) for every participant A and EVERY yield point i of A (learnt from a solo run) A is frozen forever at i while all other participants run their whole programs one after the other, A being released only at the very end; (b) generated random-walk prefixes followed by one participant running alone with all others frozen where they are; every operation must return Ok within c_op + 8 x (directory entries it listed + 1) of its own intercepted path-level/metadata/directory calls (c_op: lookups 20-30, set/put 60, ensure/get_or_update 120) and no locking primitive may appear; non-trivial = some participant completed a whole operation while a peer was frozen strictly inside an operation that had already made a mutating call; distinct by hash of (layout, programs, picks)",
        run: kvlib::c06::run,
        replay: kvlib::c06::replay,
        assumptions: &["'eventually' is turned into safety: bounded own steps with peers frozen; a step is one intercepted path-level, metadata or directory call (read/write/lseek/close on an open descriptor are not counted)", "an operation exceeding 3000 steps is stopped by making its further calls fail (so that an unbounded retry loop terminates) and reported", "a genuine hang is caught by the orchestrator's watchdog and reported as inconclusive (exit 2), never as a violation", "the stalled writer whose temp file was reclaimed may fail, but must do so within the bound"],
    }]
}

fn verif_root() -> std::path::PathBuf {
    let exe = std::env::current_exe().unwrap();
    // /verif/harness/target/release/kv -> /verif
    exe.ancestors().nth(4).map(|p| p.to_path_buf()).unwrap_or_else(|| "/verif".into())
}

fn exe_path() -> std::path::PathBuf {
    std::env::current_exe().unwrap()
}

fn main() {
    let args: Vec<String> = std::env::args().collect();
    let code = match args.get(1).map(|s| s.as_str()) {
        Some("run") => orchestrate(&args[2], &args[3]),
        Some("worker") => worker(&args[2..]),
        Some("replay") => replay(&args[2]),
        Some("selftest") => match kvlib::selftest::run() {
            Ok(notes) => {
                for n in notes {
                    println!("selftest: {}", n);
                }
                0
            }
            Err(e) => {
                println!("selftest FAILED: {}", e);
                2
            }
        },
        Some("fuzz-replay") => {
            // re-executes a libFuzzer artifact through the same decoder and oracle, without libFuzzer
            let data = std::fs::read(&args[3]).expect("read artifact");
            match kvlib::fuzzdec::run_target(&args[2], &data) {
                Ok(()) => {
                    println!("fuzz-replay: no violation");
                    0
                }
                Err(e) => {
                    println!("fuzz-replay: {}", e);
                    if let Some(j) = kvlib::fuzzdec::replay_json(&args[2], &data) {
                        println!("KVCASE {}", j);
                    }
                    1
                }
            }
        }
        Some("conc") => {
            // debugging aid: run one concurrent case and print its interleaving
            let text = std::fs::read_to_string(&args[2]).unwrap();
            let v: serde_json::Value = serde_json::from_str(&text).unwrap();
            let c: kvlib::sched::ConcCase = serde_json::from_value(v["case"]["case"].clone()).unwrap();
            drop_privileges();
            let scratch = Scratch::new("dbgc");
            kvlib::sched::prepare(&scratch.path, &c.layout);
            let ex = kvlib::sched::run_conc(&scratch.path, &c.layout, &c.progs, &c.strategy, kvlib::sched::RunOpts { yield_data: args.get(3).map(|a| a == "data").unwrap_or(false), monitor: true, budget: 0 });
            for e in &ex.events {
                println!("{:>4} {}", e.seq, e.short().replace(&scratch.s(), ""));
            }
            for h in &ex.hist {
                println!("hist t{} #{} {:?} call@{} ret@{} steps {} => {}", h.tid, h.op, h.pop.kind, h.call_seq, h.ret_seq, h.steps, h.ret.short());
            }
            println!("picks {:?} monitor {:?}", ex.picks, ex.monitor_err);
            0
        }
        Some("dbg12") => {
            use std::os::unix::ffi::OsStrExt;
            drop_privileges();
            let scratch = Scratch::new("dbg12");
            let odd = scratch.path.join(std::ffi::OsStr::from_bytes(b"caf\xe9-root"));
            std::fs::create_dir_all(&odd).unwrap();
            let c = kvlib::c12::Case { hash: 1, sec: 2, n: 7, kind: 1, label: "x" };
            println!("{:?}", kvlib::c12::judge(&odd, &c));
            let snap = snapshot(&scratch.path);
            for k in snap.keys() { println!("  {}", k); }
            0
        }
        Some("trace-os") => {
            // debugging aid: print the fault-free trace of an (op, pre, fe, fire) case
            let os = kvlib::opstate::OsCase { op: args[2].parse().unwrap(), pre: args[3].parse().unwrap(), fe: args[4].parse().unwrap(), size: 17, fire: args[5] == "1" };
            drop_privileges();
            let scratch = Scratch::new("dbg");
            let root = scratch.p("w");
            let b = kvlib::opstate::build(&root, &os);
            let world = trace_world(&[&root]);
            let (r, ev) = traced(&world, || kvlib::opstate::run_op(&root, &b));
            for e in ev.iter() {
                println!("{:>3} {}", if e.idx == u32::MAX { "app".to_string() } else { e.idx.to_string() }, e.short());
            }
            println!("=> {:?}", r.map(|r| r.short()));
            0
        }
        _ => {
            eprintln!("usage: kv run <ID> <quick|thorough> | kv replay <file>");
            2
        }
    };
    std::process::exit(code);
}

fn worker(a: &[String]) -> i32 {
    let id = &a[0];
    let tier = if a[1] == "thorough" { Tier::Thorough } else { Tier::Quick };
    let ctx = Ctx { tier, seed: a[2].parse().unwrap(), worker: a[3].parse().unwrap(), workers: a[4].parse().unwrap() };
    let reg = registry();
    let def = reg.iter().find(|d| d.id == id).expect("unknown check");
    // panics of the library under test are caught and judged by the checks; keep stderr quiet
    if std::env::var_os("VERIF_LOUD_PANICS").is_none() {
        quiet_panics();
    }
    let rep = (def.run)(&ctx);
    println!("KVREPORT {}", serde_json::to_string(&rep).unwrap());
    0
}

fn replay(file: &str) -> i32 {
    let text = std::fs::read_to_string(file).expect("read replay file");
    let v: serde_json::Value = serde_json::from_str(&text).expect("parse replay file");
    let id = v["property"].as_str().expect("property").to_string();
    let reg = registry();
    let def = reg.iter().find(|d| d.id == id).expect("unknown check");
    match (def.replay)(&v["case"]) {
        Ok(()) => {
            println!("replay: property {} held on this case", id);
            0
        }
        Err(e) => {
            println!("replay: {}", e);
            println!("VIOLATION property={} replay={}", id, file);
            1
        }
    }
}

/// Coverage-guided campaign with libFuzzer (cargo-fuzz, sanitizer none: the oracles are in the target).
fn fuzz_campaign(root: &std::path::Path, target: &str, runs: u64, max_len: u32, seed: u64, merged: &mut Report, infra: &mut Vec<String>) {
    let fuzz_dir = root.join("fuzz");
    let build = Command::new("cargo")
        .args(["+nightly", "fuzz", "build", "-s", "none", "--fuzz-dir", &fuzz_dir.to_string_lossy(), target])
        .current_dir(root.join("harness"))
        .env("RUSTFLAGS", "--cfg kismet_verif -A unexpected_cfgs -A warnings")
        .env("CARGO_NET_OFFLINE", "true")
        .stdout(Stdio::null())
        .stderr(Stdio::null())
        .status();
    let bin = fuzz_dir.join("target/x86_64-unknown-linux-gnu/release").join(target);
    if !matches!(build, Ok(s) if s.success()) || !bin.exists() {
        merged.assumptions.insert(format!("coverage-guided campaign {} skipped: the fuzz target did not build offline; the thorough tier relied on the larger proptest run alone", target));
        return;
    }
    let procs = 8u64;
    let work = scratch_base().join(format!("kv-fuzz-{}-{}", target, std::process::id()));
    let _ = std::fs::remove_dir_all(&work);
    let mut children = Vec::new();
    for i in 0..procs {
        let corpus = work.join(format!("corpus{}", i));
        let art = work.join(format!("art{}", i));
        let _ = std::fs::create_dir_all(&corpus);
        let _ = std::fs::create_dir_all(&art);
        if let Ok(rd) = std::fs::read_dir(fuzz_dir.join("seeds").join(target)) {
            for e in rd.flatten() {
                let _ = std::fs::copy(e.path(), corpus.join(e.file_name()));
            }
        }
        for d in [&work, &corpus, &art] {
            use std::os::unix::fs::PermissionsExt;
            let _ = std::fs::set_permissions(d, std::fs::Permissions::from_mode(0o777));
        }
        if let Ok(rd) = std::fs::read_dir(&corpus) {
            for e in rd.flatten() {
                use std::os::unix::fs::PermissionsExt;
                let _ = std::fs::set_permissions(e.path(), std::fs::Permissions::from_mode(0o666));
            }
        }
        let mut cmd = Command::new(&bin);
        cmd.arg(&corpus)
            .arg(format!("-runs={}", runs / procs))
            .arg(format!("-seed={}", seed.wrapping_mul(31).wrapping_add(i + 1) % 4_000_000_000 + 1))
            .arg("-len_control=0")
            .arg(format!("-max_len={}", max_len))
            .arg("-print_final_stats=1")
            .arg(format!("-artifact_prefix={}/", art.to_string_lossy()))
            .current_dir(&work)
            .env("VERIF_SCRATCH", &work)
            .stdout(Stdio::null())
            // libFuzzer is chatty: a pipe nobody drains would stall the process
            .stderr(std::fs::File::create(work.join(format!("log{}", i))).map(Stdio::from).unwrap_or_else(|_| Stdio::null()));
        let dict = fuzz_dir.join("seeds").join(format!("{}.dict", target));
        if dict.exists() {
            cmd.arg(format!("-dict={}", dict.to_string_lossy()));
        }
        if let Ok(c) = cmd.spawn() {
            children.push((i, c, art));
        }
    }
    let mut execs = 0u64;
    let mut corpus_units = 0u64;
    for (i, c, art) in children {
        let mut c = c;
        let out = c.wait();
        if out.is_ok() {
            let err = std::fs::read_to_string(work.join(format!("log{}", i))).unwrap_or_default();
            for l in err.lines() {
                if let Some(v) = l.strip_prefix("stat::number_of_executed_units:") {
                    execs += v.trim().parse::<u64>().unwrap_or(0);
                }
                if let Some(v) = l.strip_prefix("stat::new_units_added:") {
                    corpus_units += v.trim().parse::<u64>().unwrap_or(0);
                }
            }
            if let Ok(rd) = std::fs::read_dir(&art) {
                for a in rd.flatten() {
                    // confirm the artifact outside libFuzzer before believing it
                    let rep = Command::new(exe_path()).args(["fuzz-replay", target, &a.path().to_string_lossy()]).output();
                    match rep {
                        Ok(o) if o.status.code() == Some(1) => {
                            let text = String::from_utf8_lossy(&o.stdout).to_string();
                            let detail = text.lines().next().unwrap_or("").trim_start_matches("fuzz-replay: ").to_string();
                            let case = text.lines().find_map(|l| l.strip_prefix("KVCASE ")).and_then(|j| serde_json::from_str(j).ok()).unwrap_or(json!({}));
                            let sig = detail.split(':').take(2).collect::<Vec<_>>().join(":").trim_end_matches(' ').to_string();
                            merged.violations.push(Violation { signature: if sig.is_empty() { "fuzz".into() } else { sig }, detail: format!("[libFuzzer {}] {}", target, detail), replay: case });
                        }
                        _ => infra.push(format!("libFuzzer process {} of {} left an artifact that does not reproduce outside libFuzzer: {}", i, target, a.path().display())),
                    }
                }
            }
        }
    }
    merged.evaluations += execs;
    merged.extra.insert("fuzz_target".into(), json!(target));
    merged.extra.insert("fuzz_executions".into(), json!(execs));
    merged.extra.insert("fuzz_new_corpus_units".into(), json!(corpus_units));
    merged.label_n(&format!("libFuzzer:{}", target), execs);
    let _ = std::fs::remove_dir_all(&work);
}

fn orchestrate(id: &str, tier: &str) -> i32 {
    let start = Instant::now();
    let seed: u64 = std::env::var("VERIF_SEED").ok().and_then(|s| s.parse::<i64>().ok()).map(|x| x as u64).unwrap_or(1);
    let reg = registry();
    let def = match reg.iter().find(|d| d.id == id) {
        Some(d) => d,
        None => {
            eprintln!("unknown check {}", id);
            return 2;
        }
    };
    let root = verif_root();
    // VERIF_OUT_DIR redirects evidence and replay files (used when trying seeded mutants, so that
    // the committed evidence always comes from the unchanged tree)
    let out_root = std::env::var_os("VERIF_OUT_DIR").map(std::path::PathBuf::from).unwrap_or_else(|| root.clone());
    let exe = std::env::current_exe().unwrap();
    let n = std::env::var("VERIF_WORKERS").ok().and_then(|s| s.parse().ok()).unwrap_or(def.workers);
    let limit = Duration::from_secs(std::env::var("VERIF_TIMEOUT_S").ok().and_then(|s| s.parse().ok()).unwrap_or(if tier == "thorough" { 3 * 3600 } else { 1500 }));
    // the trusted base tests itself first; a failure makes the whole check inconclusive
    let mut selftest_notes: Vec<String> = Vec::new();
    match Command::new(&exe_path()).arg("selftest").output() {
        Ok(o) if o.status.success() => selftest_notes = String::from_utf8_lossy(&o.stdout).lines().map(|l| l.to_string()).collect(),
        Ok(o) => {
            eprintln!("INCONCLUSIVE: {}", String::from_utf8_lossy(&o.stdout).trim());
            return 2;
        }
        Err(e) => {
            eprintln!("INCONCLUSIVE: cannot run the self-test: {}", e);
            return 2;
        }
    }
    // permanent regression replays (shrunk cases of earlier findings) run first, in every tier
    let mut regress_violations: Vec<Violation> = Vec::new();
    let mut regress_run = 0u64;
    if let Ok(rd) = std::fs::read_dir(root.join("regress")) {
        let mut files: Vec<_> = rd.flatten().map(|e| e.path()).filter(|p| p.file_name().map(|f| f.to_string_lossy().starts_with(&format!("{}-", id))).unwrap_or(false)).collect();
        files.sort();
        for f in files {
            regress_run += 1;
            let out = Command::new(&exe_path()).args(["replay", &f.to_string_lossy()]).output();
            if let Ok(out) = out {
                if out.status.code() == Some(1) {
                    let text = String::from_utf8_lossy(&out.stdout).to_string();
                    let body: serde_json::Value = std::fs::read_to_string(&f).ok().and_then(|s| serde_json::from_str(&s).ok()).unwrap_or(json!({}));
                    regress_violations.push(Violation {
                        signature: body["signature"].as_str().unwrap_or("regression").to_string(),
                        detail: format!("regression replay {} fails again: {}", f.display(), text.lines().next().unwrap_or("")),
                        replay: body["case"].clone(),
                    });
                }
            }
        }
    }
    let mut children = Vec::new();
    for i in 0..n {
        let child = Command::new(&exe)
            .args(["worker", id, tier, &seed.to_string(), &i.to_string(), &n.to_string()])
            .stdout(Stdio::piped())
            .stderr(Stdio::inherit())
            .spawn()
            .expect("spawn worker");
        children.push(child);
    }
    // thorough tier: a slice of the filesystem-facing checks also runs on ext4 (/var/tmp) instead of tmpfs
    let ext4_slice = tier == "thorough" && matches!(id, "C02" | "C07" | "C09" | "C11" | "C17" | "C18") && std::env::var_os("VERIF_SCRATCH").is_none();
    let ext4_dir = std::path::PathBuf::from(format!("/var/tmp/kv-ext4-{}", std::process::id()));
    if ext4_slice {
        use std::os::unix::fs::PermissionsExt;
        let _ = std::fs::create_dir_all(&ext4_dir);
        let _ = std::fs::set_permissions(&ext4_dir, std::fs::Permissions::from_mode(0o777));
        for i in 0..n {
            let child = Command::new(&exe)
                .args(["worker", id, tier, &seed.wrapping_add(7777).to_string(), &i.to_string(), &n.to_string()])
                .env("VERIF_SCRATCH", &ext4_dir)
                .env("VERIF_SCALE_DIV", "10")
                .stdout(Stdio::piped())
                .stderr(Stdio::inherit())
                .spawn()
                .expect("spawn worker");
            children.push(child);
        }
    }
    // drain stdout concurrently
    let mut readers = Vec::new();
    for c in children.iter_mut() {
        let mut out = c.stdout.take().unwrap();
        readers.push(std::thread::spawn(move || {
            let mut s = String::new();
            let _ = out.read_to_string(&mut s);
            s
        }));
    }
    let mut merged = Report { exhaustive: true, ..Default::default() };
    let mut infra = Vec::new();
    for (i, mut c) in children.into_iter().enumerate() {
        let status = loop {
            match c.try_wait() {
                Ok(Some(st)) => break Some(st),
                Ok(None) => {
                    if start.elapsed() > limit {
                        let _ = c.kill();
                        let _ = c.wait();
                        break None;
                    }
                    std::thread::sleep(Duration::from_millis(20));
                }
                Err(_) => break None,
            }
        };
        let out = readers.remove(0).join().unwrap_or_default();
        match status {
            None => infra.push(format!("worker {} exceeded the time limit (inconclusive)", i)),
            Some(st) if !st.success() => infra.push(format!("worker {} died: {:?}", i, st)),
            Some(_) => match out.lines().rev().find_map(|l| l.strip_prefix("KVREPORT ")) {
                Some(js) => match serde_json::from_str::<Report>(js) {
                    Ok(r) => merged.merge(r),
                    Err(e) => infra.push(format!("worker {} report unparsable: {}", i, e)),
                },
                None => infra.push(format!("worker {} produced no report", i)),
            },
        }
    }
    infra.extend(merged.inconclusive.iter().cloned());
    if ext4_slice {
        let _ = std::fs::remove_dir_all(&ext4_dir);
        merged.assumptions.insert("thorough tier: a second set of workers (1/10 of the generated workload; enumerations in full) ran on ext4 under /var/tmp".into());
    }
    if tier == "thorough" {
        if let Some((target, runs, max_len)) = fuzz_plan(id) {
            fuzz_campaign(&root, target, runs, max_len, seed, &mut merged, &mut infra);
        }
    }
    merged.violations.extend(regress_violations);
    merged.extra.insert("regression_replays_run".into(), json!(regress_run));
    merged.extra.insert("shim_selftest".into(), json!(selftest_notes));

    // known findings
    let known: serde_json::Value = std::fs::read_to_string(root.join("known_findings.json")).ok().and_then(|s| serde_json::from_str(&s).ok()).unwrap_or(json!({"findings": []}));
    let is_known = |sig: &str| {
        known["findings"].as_array().map(|a| a.iter().any(|f| f["property"] == id && f["status"] == "known" && f["signature"].as_str() == Some(sig))).unwrap_or(false)
    };
    let mut new_violations = Vec::new();
    let mut known_hits = std::collections::BTreeSet::new();
    for v in &merged.violations {
        if is_known(&v.signature) {
            known_hits.insert((v.signature.clone(), v.detail.clone()));
        } else {
            new_violations.push(v.clone());
        }
    }
    // every listed (status=known) finding of this property is announced, reproduced in this run or not
    if let Some(list) = known["findings"].as_array() {
        for f in list.iter().filter(|f| f["property"] == id && f["status"] == "known") {
            let sig = f["signature"].as_str().unwrap_or("");
            let hits = merged.violations.iter().filter(|v| v.signature == sig).count();
            println!(
                "KNOWN-FINDING: property={} {} — {} [{}]",
                id,
                sig,
                f["what"].as_str().unwrap_or(""),
                if hits > 0 { format!("reproduced in this run; {} occurrence(s) excluded from the search", merged.excluded_known) } else { "not reproduced in this run".to_string() }
            );
        }
    }

    let _ = std::fs::create_dir_all(out_root.join("replays"));
    let mut replay_paths = Vec::new();
    let mut seen_sig = std::collections::BTreeSet::new();
    for v in &new_violations {
        if !seen_sig.insert(v.signature.clone()) {
            continue;
        }
        let name = format!("{}-{:016x}.json", id, hash_str(&format!("{}{}", v.signature, v.replay)));
        let path = out_root.join("replays").join(&name);
        let body = json!({"property": id, "signature": v.signature, "detail": v.detail, "case": v.replay});
        let _ = std::fs::write(&path, serde_json::to_string_pretty(&body).unwrap());
        replay_paths.push(path.clone());
        println!("violation: {} — {}", v.signature, v.detail.replace('\n', " "));
        println!("VIOLATION property={} replay={}", id, path.display());
    }

    let distinct = merged.nontrivial.len() as u64 + merged.nontrivial_enum;
    let mut assumptions: Vec<String> = def.assumptions.iter().map(|s| s.to_string()).collect();
    assumptions.extend(merged.assumptions.iter().cloned());
    let mut coverage = json!({
        "evaluations": merged.evaluations,
        "distinct_nontrivial": distinct,
        "rule": def.rule,
        "samples": merged.samples,
        "labels": merged.labels,
        "exhaustive": merged.exhaustive && infra.is_empty(),
        "excluded_known_shapes": merged.excluded_known,
        "workers": n,
    });
    for (k, v) in &merged.extra {
        coverage[k] = v.clone();
    }
    if !infra.is_empty() {
        coverage["inconclusive"] = json!(infra);
    }
    let evidence = json!({
        "property_id": id,
        "tier": if tier == "thorough" { "thorough" } else { "quick" },
        "seed": seed as i64,
        "level": def.level,
        "coverage": coverage,
        "assumptions": assumptions,
        "wall_s": start.elapsed().as_secs_f64(),
        "violations": new_violations.len(),
        "known_findings_seen": known_hits.iter().map(|x| x.0.clone()).collect::<Vec<_>>(),
    });
    let _ = std::fs::create_dir_all(out_root.join("evidence"));
    std::fs::write(out_root.join("evidence").join(format!("{}.json", id)), serde_json::to_string_pretty(&evidence).unwrap()).expect("write evidence");
    println!(
        "{} {}: {} evaluations, {} distinct non-trivial, {} violation(s), {:.1}s",
        id,
        tier,
        merged.evaluations,
        distinct,
        new_violations.len(),
        start.elapsed().as_secs_f64()
    );
    if !new_violations.is_empty() {
        1
    } else if !infra.is_empty() {
        for i in &infra {
            eprintln!("INCONCLUSIVE: {}", i);
        }
        2
    } else {
        0
    }
}
