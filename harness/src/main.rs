fn main(){}
