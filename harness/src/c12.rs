//! C12 — shard placement is a fixed, process-independent function of the key hashes.
use crate::common::*;
use crate::shardoracle as so;
use kismet_cache::{sharded, Key};
use proptest::prelude::*;
use serde_json::json;
use std::path::Path;

const COUNTS: &[usize] = &[127, 128, 255, 256, 257, 4096, 65535, 65536, 65537, 1 << 20];

#[derive(Clone, Debug)]
pub struct Case {
    pub hash: u64,
    pub sec: u64,
    pub n: usize,
    pub kind: u8, // 0 lookup-trace, 1 put+find, 2 planted-in-secondary / third shard, 3 loaded handle
    pub label: &'static str,
}

fn gen_case() -> impl Strategy<Value = Case> {
    let n_strat = prop_oneof![3 => 0usize..70, 2 => prop::sample::select(COUNTS.to_vec())];
    (n_strat, 0u8..8, any::<u64>(), any::<u64>(), any::<u64>(), 0u8..3, 0u8..100).prop_map(|(n, class, a, b, j, delta, kindsel)| {
        let ne = n.max(2) as u64;
        let p = so::primary();
        let s = so::secondary();
        let edge = [0u64, 1, 1 << 63, u64::MAX, 2, u64::MAX - 1];
        let (hash, sec, label) = match class {
            0 => (edge[(a % 6) as usize], edge[(b % 6) as usize], "edge hashes"),
            1 => {
                // primary image exactly around a shard boundary
                let jj = j % (ne + 1);
                let y = so::boundary(jj.min(ne - 1).max(0), ne).wrapping_add(delta as u64).wrapping_sub(1);
                (p.unmix(y), b, "primary at shard boundary")
            }
            2 => {
                let jj = j % ne;
                let y = so::boundary(jj, ne).wrapping_add(delta as u64).wrapping_sub(1);
                (a, s.unmix(y), "secondary at shard boundary")
            }
            3 => {
                // images collide: secondary mapped into the same shard as primary
                let h1 = so::scale(p.mix(a), ne);
                let y = so::boundary(h1, ne).wrapping_add(b % 3);
                (a, s.unmix(y), "colliding images (fix-up)")
            }
            4 => {
                // collide on the last shard: wrap-around to 0
                let y1 = so::boundary(ne - 1, ne).wrapping_add(a % 5);
                let y2 = so::boundary(ne - 1, ne).wrapping_add(b % 5);
                (p.unmix(y1), s.unmix(y2), "collision on last shard (wrap-around)")
            }
            5 => (a, a, "equal hash and secondary hash"),
            _ => (a, b, "uniform"),
        };
        let kind = match kindsel {
            0..=69 => 0,
            70..=84 => 1,
            85..=94 => 2,
            _ => 3,
        };
        Case { hash, sec, n, kind, label }
    })
}

fn expected_paths(root: &Path, c: &Case, name: &str) -> (String, String, u64, u64) {
    let (h1, h2) = so::shards(c.hash, c.sec, c.n);
    (
        root.join(so::dir_name(h1)).join(name).to_string_lossy().into_owned(),
        root.join(so::dir_name(h2)).join(name).to_string_lossy().into_owned(),
        h1,
        h2,
    )
}

fn clean(root: &Path) {
    crate::shim::bypass(|| {
        if let Ok(rd) = std::fs::read_dir(root) {
            for e in rd.flatten() {
                let _ = std::fs::remove_dir_all(e.path());
            }
        }
    })
}

pub fn judge(root: &Path, c: &Case) -> Result<(), (String, String)> {
    let name = "entry";
    let key = Key::new(name, c.hash, c.sec);
    let (p1, p2, h1, h2) = expected_paths(root, c, name);
    // byte-exact paths for planting (the strings above are lossy and only compared with the trace)
    let pp1 = root.join(so::dir_name(h1)).join(name);
    let pp2 = root.join(so::dir_name(h2)).join(name);
    let n_eff = c.n.max(2) as u64;
    if h1 == h2 || h1 >= n_eff || h2 >= n_eff {
        return Err(("oracle".into(), format!("oracle produced invalid shards {} {} for n {}", h1, h2, n_eff)));
    }
    let world = trace_world(&[root]);
    // the places a lookup consulted for the entry, in order of first consultation: any call that
    // names (or holds a descriptor on) a path ending in the entry's name, whatever the call is
    let suffix = format!("/{}", name);
    let opens = |ev: &[crate::shim::Event]| -> Vec<String> {
        let mut v: Vec<String> = Vec::new();
        for e in ev.iter().filter(|e| matches!(e.call, "open" | "stat" | "utimensat" | "chmod" | "unlink") && e.path.ends_with(&suffix) && !e.path.contains(".kismet_temp")) {
            if !v.contains(&e.path) {
                v.push(e.path.clone());
            }
        }
        v
    };
    match c.kind {
        0 => {
            // lookups on an empty directory: probe paths and order
            let cache = sharded::Cache::new(root.to_path_buf(), c.n, 1000);
            let (r, ev) = traced(&world, || cache.get(key));
            match r {
                Ok(Ok(None)) => {}
                other => return Err(("lookup-empty:result".into(), format!("get on an empty directory returned {:?}", other.map(|r| r.map(|o| o.is_some()))))),
            }
            let probed = opens(&ev);
            if probed != vec![p1.clone(), p2.clone()] {
                return Err(("lookup-empty:get-probes".into(), format!("get probed {:?}, expected [{}, {}]", probed, p1, p2)));
            }
            let n_open = ev.iter().filter(|e| e.call == "open").count();
            if n_open > 2 {
                return Err(("lookup-empty:get-open-count".into(), format!("get made {} open attempts, expected at most 2", n_open)));
            }
            let (r, ev) = traced(&world, || cache.touch(key));
            match r {
                Ok(Ok(false)) => {}
                other => return Err(("lookup-empty:result".into(), format!("touch on an empty directory returned {:?}", other))),
            }
            let probed = opens(&ev);
            if probed != vec![p1.clone(), p2.clone()] {
                return Err(("lookup-empty:touch-probes".into(), format!("touch probed {:?}, expected [{}, {}]", probed, p1, p2)));
            }
            // the read-only front-end must agree
            let ro = kismet_cache::ReadOnlyCacheBuilder::new().sharded(root, c.n).take().build();
            let (r, ev) = traced(&world, || ro.get(key));
            if !matches!(r, Ok(Ok(None))) {
                return Err(("lookup-empty:result".into(), "ReadOnlyCache::get on an empty directory did not miss".into()));
            }
            let probed = opens(&ev);
            if probed != vec![p1.clone(), p2.clone()] {
                return Err(("lookup-empty:readonly-probes".into(), format!("ReadOnlyCache::get probed {:?}, expected [{}, {}]", probed, p1, p2)));
            }
            Ok(())
        }
        1 => {
            // put through a fresh handle lands in the primary; other fresh handles / front-ends find it
            let v = Val::new(name, 1, 1, 17);
            let src = make_source(&root.join("staging"), "c12", &v.encode());
            let cache = sharded::Cache::new(root.to_path_buf(), c.n, 1000);
            let r = cache.put(key, &src);
            let res = (|| {
                if let Err(e) = r {
                    return Err(("put:error".to_string(), format!("put failed: {}", e)));
                }
                let snap = snapshot(root);
                let files: Vec<&String> = snap.iter().filter(|(k, e)| e.kind == 'f' && !k.starts_with("staging")).map(|(k, _)| k).collect();
                let want = format!("{}/{}", so::dir_name(h1), name);
                if files != vec![&want] {
                    return Err(("put:location".to_string(), format!("after put on a fresh handle the files are {:?}, expected exactly [{}]", files, want)));
                }
                let other = sharded::Cache::new(root.to_path_buf(), c.n, 5);
                match other.get(key) {
                    Ok(Some(mut f)) => {
                        if Val::decode(&read_all(&mut f).unwrap_or_default()).ok().as_ref() != Some(&v) {
                            return Err(("put:find".to_string(), "second handle read different content".into()));
                        }
                    }
                    r => return Err(("put:find".to_string(), format!("second fresh handle did not find the entry: {:?}", r.map(|o| o.is_some())))),
                }
                let stacked = kismet_cache::CacheBuilder::new().sharded_writer(root, c.n, 77).take().build();
                if !matches!(stacked.get(key), Ok(Some(_))) {
                    return Err(("put:find".to_string(), "stacked cache over the same directory did not find the entry".into()));
                }
                if !matches!(other.touch(key), Ok(true)) {
                    return Err(("put:find".to_string(), "touch through a second handle did not find the entry".into()));
                }
                Ok(())
            })();
            clean(root);
            res
        }
        2 => {
            // an entry sitting in the secondary shard is found; one in any third shard is not
            let v = Val::new(name, 2, 2, 17);
            plant_file(&pp2, &v.encode(), 0o444);
            let cache = sharded::Cache::new(root.to_path_buf(), c.n, 1000);
            let res = (|| {
                match cache.get(key) {
                    Ok(Some(_)) => {}
                    r => return Err(("secondary:find".to_string(), format!("entry in the secondary shard {} not found: {:?}", p2, r.map(|o| o.is_some())))),
                }
                if !matches!(cache.touch(key), Ok(true)) {
                    return Err(("secondary:find".to_string(), "touch did not find the entry in the secondary shard".into()));
                }
                // a set on an entry present in the secondary shard must update it there, not create a second copy
                let v2 = Val::new(name, 3, 3, 17);
                let src = make_source(&root.join("staging"), "c12", &v2.encode());
                if let Err(e) = cache.set(key, &src) {
                    return Err(("secondary:set".to_string(), format!("set failed: {}", e)));
                }
                let snap = snapshot(root);
                let files: Vec<&String> = snap.iter().filter(|(k, e)| e.kind == 'f' && !k.starts_with("staging")).map(|(k, _)| k).collect();
                let a = format!("{}/{}", so::dir_name(h1), name);
                let b = format!("{}/{}", so::dir_name(h2), name);
                if !(files == vec![&a] || files == vec![&b]) {
                    return Err(("secondary:set-location".to_string(), format!("after set the files are {:?}; expected exactly one of {} / {}", files, a, b)));
                }
                Ok(())
            })();
            clean(root);
            if res.is_err() {
                return res;
            }
            if n_eff > 2 {
                let mut third = (h1 + 1) % n_eff;
                while third == h1 || third == h2 {
                    third = (third + 1) % n_eff;
                }
                let p3 = root.join(so::dir_name(third)).join(name);
                plant_file(&p3, &v.encode(), 0o444);
                let r = cache.get(key);
                clean(root);
                if !matches!(r, Ok(None)) {
                    return Err(("third-shard:found".into(), format!("entry planted in non-candidate shard {} was returned by a lookup", p3.display())));
                }
            }
            Ok(())
        }
        _ => {
            // a handle with skewed in-memory load estimates: stores only in the two candidates, and lookups still probe the primary first
            let cache = sharded::Cache::new(root.to_path_buf(), c.n, 1_000_000);
            let p = so::primary();
            let res = (|| {
                // load the key's primary shard through this handle
                for i in 0..4u64 {
                    let y = so::boundary(h1, n_eff).wrapping_add(i);
                    if so::scale(y, n_eff) != h1 {
                        continue;
                    }
                    let other_name = format!("other{}", i);
                    let k2 = Key::new(&other_name, p.unmix(y), c.sec ^ (i + 1).wrapping_mul(0x9E3779B97F4A7C15));
                    let src = make_source(&root.join("staging"), "c12", &Val::new(&other_name, 9, i as u32, 1).encode());
                    if let Err(e) = cache.put(k2, &src) {
                        return Err(("loaded:put".to_string(), format!("put failed: {}", e)));
                    }
                }
                let v = Val::new(name, 4, 4, 17);
                let src = make_source(&root.join("staging"), "c12", &v.encode());
                if let Err(e) = cache.put(key, &src) {
                    return Err(("loaded:put".to_string(), format!("put failed: {}", e)));
                }
                let snap = snapshot(root);
                let mine: Vec<&String> = snap.iter().filter(|(k, e)| e.kind == 'f' && k.ends_with("/entry")).map(|(k, _)| k).collect();
                let a = format!("{}/{}", so::dir_name(h1), name);
                let b = format!("{}/{}", so::dir_name(h2), name);
                if !(mine == vec![&a] || mine == vec![&b]) {
                    return Err(("loaded:location".to_string(), format!("a handle with skewed load estimates stored the entry at {:?}; allowed: {} or {}", mine, a, b)));
                }
                // any other handle finds it
                let fresh = sharded::Cache::new(root.to_path_buf(), c.n, 10);
                if !matches!(fresh.get(key), Ok(Some(_))) {
                    return Err(("loaded:find".to_string(), "fresh handle did not find an entry stored by a loaded handle".into()));
                }
                // both copies present (allowed under concurrent writers): every handle must return the primary one
                let vp = Val::new(name, 5, 5, 17);
                let vs = Val::new(name, 6, 6, 17);
                plant_file(&pp1, &vp.encode(), 0o444);
                plant_file(&pp2, &vs.encode(), 0o444);
                for (who, h) in [("loaded", &cache), ("fresh", &fresh)] {
                    let (r, ev) = traced(&world, || h.get(key));
                    match r {
                        Ok(Ok(Some(mut f))) => {
                            let got = Val::decode(&read_all(&mut f).unwrap_or_default()).ok();
                            if got.as_ref() != Some(&vp) {
                                return Err(("loaded:probe-order".to_string(), format!("{} handle returned {:?} with both shards holding the key; the primary copy must be probed first", who, got)));
                            }
                        }
                        _ => return Err(("loaded:find".to_string(), format!("{} handle missed", who))),
                    }
                    let probed = opens(&ev);
                    if probed.first() != Some(&p1) {
                        return Err(("loaded:probe-order".to_string(), format!("{} handle probed {:?} first, expected the primary {}", who, probed.first(), p1)));
                    }
                }
                Ok(())
            })();
            clean(root);
            res
        }
    }
}

fn case_json(c: &Case) -> serde_json::Value {
    json!({"check": "C12", "hash": c.hash.to_string(), "secondary_hash": c.sec.to_string(), "shards": c.n, "kind": c.kind, "label": c.label})
}

pub fn replay(v: &serde_json::Value) -> Result<(), String> {
    let c = Case {
        hash: v["hash"].as_str().ok_or("hash")?.parse().map_err(|_| "hash")?,
        sec: v["secondary_hash"].as_str().ok_or("sec")?.parse().map_err(|_| "sec")?,
        n: v["shards"].as_u64().ok_or("shards")? as usize,
        kind: v["kind"].as_u64().ok_or("kind")? as u8,
        label: "replay",
    };
    drop_privileges();
    let scratch = Scratch::new("c12r");
    judge(&scratch.path, &c).map_err(|(s, d)| format!("{}: {}", s, d))
}

pub fn run(ctx: &Ctx) -> Report {
    let mut rep = Report::default();
    rep.assumptions.insert(drop_privileges());
    let scratch = Scratch::new("c12");
    // a slice of the cases runs under a cache root whose path is NOT valid UTF-8 (Latin-1 byte):
    // placement must be byte-exact, whatever the encoding of the directory name
    {
        use std::os::unix::ffi::OsStrExt;
        let odd = scratch.path.join(std::ffi::OsStr::from_bytes(b"caf\xe9-root"));
        crate::shim::bypass(|| std::fs::create_dir_all(&odd).unwrap());
        let mut rng = ctx.rng(1212);
        for i in 0..ctx.share(ctx.scale(4_000, 40_000)) {
            let c = Case { hash: rng.next(), sec: rng.next(), n: [2usize, 3, 7, 64, 257, 65537][rng.below(6) as usize], kind: 1 + (i % 2) as u8, label: "non-UTF-8 cache root" };
            rep.case(Some(fnv(format!("odd{}-{}-{}-{}", c.hash, c.sec, c.n, c.kind).as_bytes())));
            rep.label(c.label);
            if let Err((sig, detail)) = judge(&odd, &c) {
                rep.violation(&sig, format!("[cache root with a non-UTF-8 name] {}", detail), case_json(&c));
                break;
            }
        }
    }
    let cases = ctx.share(ctx.scale(600_000, 10_000_000)) as u32;
    let rep_cell = std::cell::RefCell::new(&mut rep);
    let found = prop_search(ctx, 12, cases, 500, &gen_case(), |c, exploring| {
        if exploring {
            let mut rep = rep_cell.borrow_mut();
            let h = fnv(format!("{}-{}-{}-{}", c.hash, c.sec, c.n, c.kind).as_bytes());
            rep.case(Some(h));
            rep.label(c.label);
            rep.label(["kind:lookup-trace", "kind:put+find", "kind:planted secondary/third", "kind:loaded handle"][c.kind as usize]);
            if c.n.max(2) > 0xffff {
                rep.label(">=5-digit shard ids possible");
            }
            if c.n < 2 {
                rep.label("n<2 treated as 2");
            }
            if rep.samples.len() < 4 && rep.evaluations % 997 == 1 {
                let s = case_json(c);
                rep.sample(s);
            }
        }
        judge(&scratch.path, c).map_err(|(s, d)| format!("{}|{}", s, d))
    });
    drop(rep_cell);
    if let Some((msg, c)) = found {
        let (sig, detail) = msg.split_once('|').map(|(a, b)| (a.to_string(), b.to_string())).unwrap_or(("c12".into(), msg.clone()));
        rep.violation(&sig, detail, case_json(&c));
    }
    rep
}
