//! Reference model of Second Chance: the textbook queue, and a closed-form
//! acceptance predicate for "what the textbook queue yields under SOME order
//! of equally ranked entries".  Nothing here calls into Kismet.
use std::collections::{BTreeSet, VecDeque};

#[derive(Clone, Copy, Debug, PartialEq, Eq, Hash, PartialOrd, Ord)]
pub struct Item<R: Ord + Copy> {
    pub id: usize,
    pub rank: R,
    pub accessed: bool,
}

/// Literally runs the classical clock queue on `order` (a total order of the input,
/// lowest rank first): pop; if accessed, clear and requeue; else evict; stop after
/// `must_remove` evictions.  Returns (evicted in order, requeued-and-still-present in queue order).
pub fn clock_queue<R: Ord + Copy>(order: &[Item<R>], must_remove: usize) -> (Vec<usize>, Vec<usize>) {
    let mut q: VecDeque<(usize, bool, bool)> = order.iter().map(|i| (i.id, i.accessed, false)).collect();
    let mut evicted = Vec::new();
    while evicted.len() < must_remove {
        let (id, acc, _requeued) = match q.pop_front() {
            Some(x) => x,
            None => break,
        };
        if acc {
            q.push_back((id, false, true));
        } else {
            evicted.push(id);
        }
    }
    let requeued = q.iter().filter(|x| x.2).map(|x| x.0).collect();
    (evicted, requeued)
}

/// Closed-form predicate: is (evict set, move_back sequence) what `clock_queue` yields for some
/// rank-consistent total order of `items`?  `Err(reason)` otherwise.
pub fn accepts<R: Ord + Copy + std::fmt::Debug>(items: &[Item<R>], capacity: usize, evict: &[usize], move_back: &[usize]) -> Result<(), String> {
    let n = items.len();
    let m = n.saturating_sub(capacity);
    let index: std::collections::HashMap<usize, &Item<R>> = items.iter().map(|i| (i.id, i)).collect();
    let by_id = |id: usize| index.get(&id).copied();
    // structural: distinct input ids, disjoint
    let mut seen = BTreeSet::new();
    for id in evict.iter().chain(move_back.iter()) {
        if by_id(*id).is_none() {
            return Err(format!("invented entry id {}", id));
        }
        if !seen.insert(*id) {
            return Err(format!("entry id {} appears twice in the plan", id));
        }
    }
    if evict.len() != m {
        return Err(format!("evicts {} entries, must evict exactly {} (n={}, capacity={})", evict.len(), m, n, capacity));
    }
    if m == 0 {
        if !move_back.is_empty() {
            return Err(format!("n <= capacity but {} entries are moved back", move_back.len()));
        }
        return Ok(());
    }
    let eset: BTreeSet<usize> = evict.iter().copied().collect();
    let mset: BTreeSet<usize> = move_back.iter().copied().collect();
    // move_back must be accessed entries in non-decreasing rank
    for w in move_back.windows(2) {
        if by_id(w[0]).unwrap().rank > by_id(w[1]).unwrap().rank {
            return Err(format!("reprieved entries not in queue (rank) order: id {} before id {}", w[0], w[1]));
        }
    }
    for id in move_back {
        if !by_id(*id).unwrap().accessed {
            return Err(format!("unaccessed entry id {} was reprieved", id));
        }
    }
    let num_unacc = items.iter().filter(|i| !i.accessed).count();
    if num_unacc >= m {
        // victims: m unaccessed entries, lowest ranks first
        for id in evict {
            if by_id(*id).unwrap().accessed {
                return Err(format!("accessed entry id {} evicted although {} unaccessed entries could cover the {} evictions", id, num_unacc, m));
            }
        }
        let rv = evict.iter().map(|id| by_id(*id).unwrap().rank).max().unwrap();
        for i in items.iter().filter(|i| !i.accessed && !eset.contains(&i.id)) {
            if i.rank < rv {
                return Err(format!("unaccessed entry id {} (rank {:?}) survives while a younger one (rank {:?}) is evicted", i.id, i.rank, rv));
            }
        }
        // reprieved: every accessed entry ranked strictly below the last victim, plus any subset of those tied with it
        for i in items.iter().filter(|i| i.accessed) {
            if i.rank < rv && !mset.contains(&i.id) {
                return Err(format!("accessed entry id {} (rank {:?}) precedes the last victim (rank {:?}) but was not moved back", i.id, i.rank, rv));
            }
            if i.rank > rv && mset.contains(&i.id) {
                return Err(format!("accessed entry id {} (rank {:?}) is behind the last victim (rank {:?}) but was moved back", i.id, i.rank, rv));
            }
        }
        Ok(())
    } else {
        // all unaccessed entries go, then a prefix (by rank) of the accessed ones; the rest is reprieved
        for i in items.iter().filter(|i| !i.accessed) {
            if !eset.contains(&i.id) {
                return Err(format!("unaccessed entry id {} survives although accessed entries are evicted", i.id));
            }
        }
        let max_evicted_acc: Option<&Item<R>> = items.iter().filter(|i| i.accessed && eset.contains(&i.id)).max_by_key(|i| i.rank);
        for i in items.iter().filter(|i| i.accessed && !eset.contains(&i.id)) {
            if !mset.contains(&i.id) {
                return Err(format!("accessed entry id {} is neither evicted nor moved back on a full sweep", i.id));
            }
            if let Some(worse) = max_evicted_acc.filter(|e| e.rank > i.rank) {
                return Err(format!("accessed entry id {} (rank {:?}) evicted on the second pass before older id {} (rank {:?})", worse.id, worse.rank, i.id, i.rank));
            }
        }
        Ok(())
    }
}

fn permutations_consistent<R: Ord + Copy>(items: &[Item<R>]) -> Vec<Vec<Item<R>>> {
    // all total orders consistent with rank: permute within groups of equal rank
    let mut sorted = items.to_vec();
    sorted.sort_by_key(|i| (i.rank, i.id));
    let mut groups: Vec<Vec<Item<R>>> = Vec::new();
    for i in sorted {
        match groups.last_mut() {
            Some(g) if g[0].rank == i.rank => g.push(i),
            _ => groups.push(vec![i]),
        }
    }
    fn perms<T: Clone>(xs: &[T]) -> Vec<Vec<T>> {
        if xs.len() <= 1 {
            return vec![xs.to_vec()];
        }
        let mut out = Vec::new();
        for i in 0..xs.len() {
            let mut rest = xs.to_vec();
            let x = rest.remove(i);
            for mut p in perms(&rest) {
                p.insert(0, x.clone());
                out.push(p);
            }
        }
        out
    }
    let mut acc: Vec<Vec<Item<R>>> = vec![vec![]];
    for g in groups {
        let ps = perms(&g);
        let mut next = Vec::new();
        for a in &acc {
            for p in &ps {
                let mut v = a.clone();
                v.extend(p.iter().cloned());
                next.push(v);
            }
        }
        acc = next;
    }
    acc
}

/// Brute force: all (evicted set, reprieved sequence) the textbook queue can produce.
pub fn brute_outcomes<R: Ord + Copy>(items: &[Item<R>], capacity: usize) -> BTreeSet<(Vec<usize>, Vec<usize>)> {
    let m = items.len().saturating_sub(capacity);
    let mut out = BTreeSet::new();
    for order in permutations_consistent(items) {
        let (mut ev, mb) = clock_queue(&order, m);
        ev.sort();
        out.insert((ev, mb));
    }
    out
}

/// Oracle self-test: on all inputs of length <= max_n over `ranks` rank values, the predicate
/// accepts exactly the brute-force outcomes among ALL candidate (subset, sequence) plans.
/// Returns (inputs, candidates checked) or the first disagreement.
pub fn validate_predicate(max_n: usize, ranks: u32) -> Result<(u64, u64), String> {
    let syms = (ranks * 2) as usize;
    let mut inputs = 0u64;
    let mut cands = 0u64;
    for n in 0..=max_n {
        let total = syms.pow(n as u32);
        for code in 0..total {
            let mut c = code;
            let items: Vec<Item<u32>> = (0..n)
                .map(|id| {
                    let s = c % syms;
                    c /= syms;
                    Item { id, rank: (s / 2) as u32, accessed: s % 2 == 1 }
                })
                .collect();
            for cap in 0..=n + 1 {
                inputs += 1;
                let brute = brute_outcomes(&items, cap);
                let m = n.saturating_sub(cap);
                // candidates: every subset of size m as evict, every sequence of distinct others as move_back
                for mask in 0u32..(1 << n) {
                    if mask.count_ones() as usize != m {
                        continue;
                    }
                    let ev: Vec<usize> = (0..n).filter(|i| mask & (1 << i) != 0).collect();
                    let rest: Vec<usize> = (0..n).filter(|i| mask & (1 << i) == 0).collect();
                    let mut seqs: Vec<Vec<usize>> = vec![vec![]];
                    let mut frontier: Vec<Vec<usize>> = vec![vec![]];
                    for _ in 0..rest.len() {
                        let mut next = Vec::new();
                        for s in &frontier {
                            for r in &rest {
                                if !s.contains(r) {
                                    let mut t = s.clone();
                                    t.push(*r);
                                    next.push(t);
                                }
                            }
                        }
                        seqs.extend(next.iter().cloned());
                        frontier = next;
                    }
                    for mb in seqs {
                        cands += 1;
                        let acc = accepts(&items, cap, &ev, &mb).is_ok();
                        let inb = brute.contains(&(ev.clone(), mb.clone()));
                        if acc != inb {
                            return Err(format!("predicate {} but brute force {} for items {:?} cap {} evict {:?} move_back {:?}", acc, inb, items, cap, ev, mb));
                        }
                    }
                }
            }
        }
    }
    Ok((inputs, cands))
}
