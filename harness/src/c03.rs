//! C03 — with auto_sync, data is durable before it is visible and immutable afterwards.
use crate::common::*;
use crate::fe::*;
use crate::shim::{Event, Fault};
use serde::{Deserialize, Serialize};
use serde_json::json;
use std::path::Path;

#[derive(Clone, Debug, Serialize, Deserialize)]
pub struct Case {
    /// 0 set(path) 1 put(path) 2 set_temp_file 3 put_temp_file 4 ensure miss 5 get_or_update miss
    /// 6 Replace on primary hit 7 Replace on secondary hit 8 Promote from a read-only level
    pub path: u8,
    pub sharded: bool,
    pub size: usize,
    pub present: bool,
    pub auto_sync: bool,
    /// 0 none; 1 the j-th fsync fails with EIO; 2 a peer removes the key's entry right before call k
    pub fault: u8,
    pub at: u32,
    /// trailing operations on the same key: 0 get 1 touch 2 put 3 set 4 set of another key with maintenance firing
    pub trailing: Vec<u8>,
    /// how the CacheBuilder was obtained: 0 fresh `new()` with auto_sync set explicitly, 1 a builder
    /// already used once (`take()` reset it), 2 `CacheBuilder::default()`; in 1 and 2 auto_sync is
    /// left at its default, which is documented to be true
    #[serde(default)]
    pub builder: u8,
}

const KEY: &str = "key";

fn keyspec() -> KeySpec {
    KeySpec::new(KEY, 0x0123_4567_89ab_cdef, 0xfedc_ba98_7654_3210)
}

fn setup(root: &Path, c: &Case) -> (StackSpec, Op) {
    let wspec = if c.sharded { DirSpec::Sharded { dir: "W".into(), shards: 2, cap: 4 } } else { DirSpec::Plain { dir: "W".into(), cap: 2 } };
    let rspec = DirSpec::Plain { dir: "R".into(), cap: 0 };
    let old = now_ns() - 86_400_000_000_000;
    crate::shim::bypass(|| {
        std::fs::create_dir_all(root.join("W")).unwrap();
        std::fs::create_dir_all(root.join("R")).unwrap();
    });
    let ks = keyspec();
    let wdir = wspec.candidate_dirs(root, &ks)[0].clone();
    let in_writer = match c.path {
        6 => true,
        7 | 8 => false,
        _ => c.present,
    };
    if in_writer {
        plant_file(&wdir.join(KEY), &Val::new(KEY, 50, 0, c.size).encode(), 0o444);
        set_times_ns(&wdir.join(KEY), old - 120_000_000_000, old).unwrap();
    }
    // a second entry so that maintenance has something to look at
    plant_file(&wdir.join("other"), &Val::new("other", 51, 0, 17).encode(), 0o444);
    set_times_ns(&wdir.join("other"), old - 120_000_000_000, old - 1_000_000_000).unwrap();
    if matches!(c.path, 7 | 8) {
        plant_file(&root.join("R").join(KEY), &Val::new(KEY, 60, 0, c.size).encode(), 0o444);
        set_times_ns(&root.join("R").join(KEY), old - 120_000_000_000, old).unwrap();
    }
    let spec = StackSpec { writer: Some(wspec), readers: vec![rspec], checker: Checker::None, auto_sync: c.auto_sync };
    let kind = match c.path {
        0 => OpKind::Set,
        1 => OpKind::Put,
        2 => OpKind::SetTemp,
        3 => OpKind::PutTemp,
        4 => OpKind::Ensure,
        5 => OpKind::GouAccept,
        6 | 7 => OpKind::GouReplace,
        _ => OpKind::GouPromote,
    };
    let op = Op { kind, key: ks, val: Val::new(KEY, 1, 1, c.size), pop: Pop::Value, nosy: false, link_from: None };
    (spec, op)
}

fn is_key_path(root_s: &str, p: &str) -> bool {
    p.starts_with(&format!("{}/W/", root_s)) && !p.contains(".kismet_temp")
}

fn mutates_data(e: &Event) -> bool {
    match e.call {
        "write" | "copy_file_range" | "ftruncate" => e.ret >= 0,
        "open" => e.ok() && (e.arg as i32 & libc::O_TRUNC) != 0,
        _ => false,
    }
}

/// The history invariant over a complete trace.
pub fn check_trace(root_s: &str, ev: &[Event], auto_sync: bool) -> Result<u32, (String, String)> {
    let mut publications = 0u32;
    let mut visible: std::collections::BTreeMap<u64, u64> = std::collections::BTreeMap::new(); // ino -> seq of first visibility
    for p in ev.iter().filter(|e| (e.call == "rename" || e.call == "link") && e.ok() && is_key_path(root_s, &e.path2)) {
        publications += 1;
        let ino = p.ino;
        if ino == 0 {
            return Err(("c03:unknown-inode".into(), format!("publication of an unknown inode: {}", p.short())));
        }
        let mode = p.arg as u32;
        if mode & 0o222 != 0 {
            return Err(("c03:writable-when-published".into(), format!("{}: the file had mode {:o} (write bits) at the moment it became visible", p.short(), mode & 0o7777)));
        }
        if let Some(f) = ev.iter().find(|e| e.call == "fsync" && e.ino == ino && e.ret < 0 && e.seq < p.seq) {
            return Err(("c03:published-after-failed-flush".into(), format!("{} although its flush failed earlier ({})", p.short(), f.short())));
        }
        if auto_sync {
            let last_mut = ev.iter().filter(|e| e.ino == ino && e.seq < p.seq && mutates_data(e)).map(|e| e.seq).max().unwrap_or(0);
            let synced = ev.iter().any(|e| e.call == "fsync" && e.ino == ino && e.ok() && e.seq > last_mut && e.seq < p.seq);
            if !synced {
                return Err(("c03:visible-before-durable".into(), format!("{}: no successful fsync of inode {} after its last write and before it became visible", p.short(), ino)));
            }
        }
        visible.entry(ino).or_insert(p.seq);
    }
    for (ino, since) in &visible {
        if let Some(e) = ev.iter().find(|e| e.ino == *ino && e.seq > *since && (mutates_data(e) || matches!(e.call, "chmod" | "fchmod"))) {
            return Err(("c03:modified-after-visible".into(), format!("inode {} was modified after it became visible: {}", ino, e.short())));
        }
        if let Some(e) = ev.iter().find(|e| e.ino == *ino && e.seq > *since && e.call == "open" && e.ok() && (e.arg as i32 & libc::O_ACCMODE) != libc::O_RDONLY) {
            // a write-capable descriptor on a published inode is only legitimate for filetime's
            // write-only fallback when setting times; any data write through it is caught above
            let _ = e;
        }
    }
    Ok(publications)
}

pub fn judge(root: &Path, c: &Case) -> Result<(u32, u32, bool), (String, String)> {
    let (spec, op) = setup(root, c);
    let world = trace_world(&[root]);
    let root_s = root.to_string_lossy().into_owned();
    let ks = keyspec();
    let cands: Vec<std::path::PathBuf> = spec.writer.as_ref().unwrap().candidate_dirs(root, &ks);
    let mut all: Vec<Event> = Vec::new();
    let mut n_calls = 0u32;
    let mut fault_hit = false;
    let (r, ev) = traced(&world, || {
        script_rng(true, 1);
        set_builder_mode(if c.auto_sync { c.builder } else { 0 });
        let h = open_stack(root, &spec);
        set_builder_mode(0);
        match c.fault {
            1 => {
                // fail the j-th fsync: find its call index by counting fsyncs is not possible in advance,
                // so `at` is the call index learnt from the fault-free run
                crate::shim::set_fault(Fault::Inject(c.at, libc::EIO));
            }
            2 => {
                let cands = cands.clone();
                crate::shim::set_action(Some(Box::new(move || {
                    for d in &cands {
                        let _ = std::fs::remove_file(d.join(KEY));
                    }
                })));
                crate::shim::set_fault(Fault::Action(c.at));
            }
            _ => {}
        }
        crate::shim::begin_op(0);
        let ret = exec(root, &h, &op).0;
        let calls = crate::shim::op_calls();
        let hit = crate::shim::fault_was_hit();
        crate::shim::set_fault(Fault::None);
        crate::shim::set_action(None);
        (ret, calls, hit, h)
    });
    all.extend(ev);
    let cleanup = || crate::shim::bypass(|| {
        if let Ok(rd) = std::fs::read_dir(root) {
            for e in rd.flatten() {
                let _ = std::fs::remove_dir_all(e.path());
            }
        }
    });
    let res = (|| -> Result<(u32, bool), (String, String)> {
        let (ret, calls, hit, h) = r.map_err(|p| ("c03:panic".to_string(), p))?;
        n_calls = calls;
        fault_hit = hit;
        // a failed flush of a value file (arg = 1 marks a directory descriptor: flushing a directory is not flushing a value)
        let failed_fsync = all.iter().any(|e| e.call == "fsync" && e.injected && e.arg == 0);
        if failed_fsync {
            let ok = match &ret {
                Ret::Err(_) => true,
                Ret::Panic(m) => m.contains("auto_sync failed"),
                _ => false,
            };
            if !ok {
                return Err(("c03:failed-flush-not-reported".into(), format!("a flush failed but the call returned {}", ret.short())));
            }
        } else if c.fault != 1 {
            if let Ret::Panic(m) = &ret {
                return Err(("c03:panic".into(), m.clone()));
            }
            if ret.is_err() && c.fault == 0 {
                return Err(("c03:error".into(), format!("fault-free call failed: {}", ret.short())));
            }
        }
        // trailing operations on the same key ("afterwards")
        for (i, t) in c.trailing.iter().enumerate() {
            let (kind, key, fire) = match t {
                0 => (OpKind::Get, keyspec(), false),
                1 => (OpKind::Touch, keyspec(), false),
                2 => (OpKind::Put, keyspec(), false),
                3 => (OpKind::Set, keyspec(), false),
                _ => (OpKind::Set, KeySpec::new("another", 77, 88), true),
            };
            let top = Op { kind, key: key.clone(), val: Val::new(&key.name, 2, 10 + i as u32, c.size), pop: Pop::Value, nosy: false, link_from: None };
            let (r2, ev2) = traced(&world, || {
                script_rng(fire, 1);
                exec(root, &h, &top).0
            });
            // keep sequence numbers increasing across the whole history
            all.extend(ev2);
            if let Ok(Ret::Panic(m)) = &r2 {
                return Err(("c03:panic".into(), m.clone()));
            }
        }
        let pubs = check_trace(&root_s, &all, c.auto_sync)?;
        // every key-named file on disk is read-only
        let snap = snapshot(&root.join("W"));
        for (p, e) in snap.iter().filter(|(p, e)| e.kind == 'f' && !p.contains(".kismet_temp")) {
            if e.mode & 0o222 != 0 {
                return Err(("c03:writable-on-disk".into(), format!("W/{} has mode {:o}", p, e.mode)));
            }
        }
        Ok((pubs, failed_fsync))
    })();
    cleanup();
    res.map(|(pubs, ff)| (pubs, n_calls, ff || fault_hit))
}

pub fn replay(v: &serde_json::Value) -> Result<(), String> {
    let c: Case = serde_json::from_value(v["case"].clone()).map_err(|e| e.to_string())?;
    drop_privileges();
    let scratch = Scratch::new("c03r");
    judge(&scratch.path, &c).map(|_| ()).map_err(|(s, d)| format!("{}: {}", s, d))
}

pub fn run(ctx: &Ctx) -> Report {
    let mut rep = Report { exhaustive: true, ..Default::default() };
    rep.assumptions.insert(drop_privileges());
    let scratch = Scratch::new("c03");
    let mut rng = ctx.rng(3);
    let sizes: Vec<usize> = if ctx.tier == Tier::Thorough { vec![1, 17, 4096, 8193, 70_000] } else { vec![17, 8193] };
    let trailing_sets: Vec<Vec<u8>> = vec![vec![], vec![0, 1, 2, 4], vec![3, 0, 4, 2], vec![2, 2, 1, 0, 4, 3]];
    let mut idx = 0u64;
    let mut record = |rep: &mut Report, c: &Case, r: Result<(u32, u32, bool), (String, String)>| {
        let h = fnv(format!("{:?}", c).as_bytes());
        let nontrivial = matches!(&r, Ok((p, _, _)) if *p > 0) || matches!(&r, Ok((_, _, true)));
        rep.case(if nontrivial { Some(h) } else { None });
        rep.label(["set(path)", "put(path)", "set_temp_file", "put_temp_file", "ensure miss", "get_or_update miss", "Replace on primary hit", "Replace on secondary hit", "Promote from read-only level"][c.path as usize]);
        rep.label(["fault:none", "fault:fsync fails", "fault:peer removes the entry mid-call"][c.fault as usize]);
        if rep.samples.len() < 3 && c.fault > 0 {
            rep.sample(json!({"case": c}));
        }
        if let Err((sig, detail)) = r {
            rep.violation(&sig, format!("{} at {:?}", detail, c), json!({"case": c}));
        }
    };
    for path in 0..9u8 {
        for sharded in [false, true] {
            for &size in &sizes {
                for present in [false, true] {
                    for auto_sync in [true, false] {
                        idx += 1;
                        if !ctx.mine(idx) {
                            continue;
                        }
                        for tr in &trailing_sets {
                            let base = Case { path, sharded, size, present, auto_sync, fault: 0, at: 0, trailing: tr.clone(), builder: ((idx as usize + tr.len()) % 3) as u8 };
                            let r = judge(&scratch.path, &base);
                            let n_calls = r.as_ref().map(|x| x.1).unwrap_or(0);
                            record(&mut rep, &base, r);
                            if !tr.is_empty() && tr.len() != 4 {
                                continue;
                            }
                            if tr.is_empty() {
                                // every flush call failing in turn, and a peer removing the entry before every call
                                // (call indexes are those of the fault-free run)
                                for k in 0..n_calls {
                                    for fault in [1u8, 2u8] {
                                        if fault == 1 && !auto_sync {
                                            continue;
                                        }
                                        let c = Case { fault, at: k, trailing: if fault == 2 { vec![0, 2] } else { vec![] }, ..base.clone() };
                                        if fault == 1 {
                                            // only inject at fsync calls: learn which indexes are fsyncs lazily (injecting EIO
                                            // elsewhere belongs to C18)
                                            let r = judge_if_fsync(&scratch.path, &c);
                                            if let Some(r) = r {
                                                record(&mut rep, &c, r);
                                            }
                                        } else {
                                            let r = judge(&scratch.path, &c);
                                            record(&mut rep, &c, r);
                                        }
                                    }
                                }
                            }
                        }
                    }
                }
            }
        }
    }
    // generated trailing histories
    let extra = ctx.share(ctx.scale(40_000, 600_000));
    for _ in 0..extra {
        let c = Case {
            path: rng.below(9) as u8,
            sharded: rng.chance(1, 2),
            size: *rng.pick(SIZES),
            present: rng.chance(1, 2),
            auto_sync: rng.chance(3, 4),
            fault: 0,
            at: 0,
            trailing: (0..rng.below(8)).map(|_| rng.below(5) as u8).collect(),
            builder: rng.below(3) as u8,
        };
        let r = judge(&scratch.path, &c);
        record(&mut rep, &c, r);
    }
    rep
}

/// Runs the case only if call `c.at` of the fault-free run is an fsync (decided by a dry run).
fn judge_if_fsync(root: &Path, c: &Case) -> Option<Result<(u32, u32, bool), (String, String)>> {
    thread_local! { static CACHE: std::cell::RefCell<std::collections::HashMap<String, Vec<u32>>> = std::cell::RefCell::new(std::collections::HashMap::new()); }
    let key = format!("{}-{}-{}-{}-{}", c.path, c.sharded, c.size, c.present, c.auto_sync);
    let known = CACHE.with(|m| m.borrow().get(&key).cloned());
    let idxs = match known {
        Some(v) => v,
        None => {
            // dry run to learn the fsync call indexes
            let (spec, op) = setup(root, c);
            let world = trace_world(&[root]);
            let (_, ev) = traced(&world, || {
                script_rng(true, 1);
                let h = open_stack(root, &spec);
                crate::shim::begin_op(0);
                exec(root, &h, &op).0
            });
            crate::shim::bypass(|| {
                if let Ok(rd) = std::fs::read_dir(root) {
                    for e in rd.flatten() {
                        let _ = std::fs::remove_dir_all(e.path());
                    }
                }
            });
            let v: Vec<u32> = ev.iter().filter(|e| e.call == "fsync").map(|e| e.idx).collect();
            CACHE.with(|m| m.borrow_mut().insert(key, v.clone()));
            v
        }
    };
    if idxs.contains(&c.at) {
        Some(judge(root, c))
    } else {
        None
    }
}
