//! Real-parallel stress (thorough tier of C01 and C05): threads with their own handles hammer the
//! same directories at native speed, outside the cooperative scheduler. It complements the
//! scheduled exploration where that one is weakest (more than a couple of preemptions, and the
//! assumption that the kernel executes each libc call atomically). Fixed work, not a time budget.
//! A failure here is a real observation but the interleaving cannot be replayed; the replay file
//! re-runs the same stress configuration.
use crate::common::*;
use crate::fe::*;
use crate::sched::{key_for, Layout};
use serde::{Deserialize, Serialize};
use std::path::Path;

#[derive(Clone, Debug, Serialize, Deserialize)]
pub struct StressCase {
    pub layout: Layout,
    pub threads: u32,
    pub ops: u32,
    pub seed: u64,
    pub with_adversary: bool,
}

pub struct StressOut {
    pub ops: u64,
    pub lookups_hit: u64,
    /// (signature, detail)
    pub content_violation: Option<(String, String)>,
    pub error_violation: Option<(String, String)>,
}

pub fn run(root: &Path, c: &StressCase) -> StressOut {
    crate::sched::prepare(root, &c.layout);
    let n = c.threads as usize;
    let mut handles = Vec::new();
    let shared = if c.layout.shared_handle { Some(crate::sched::open_handle(root, &c.layout)) } else { None };
    for tid in 0..n {
        let root = root.to_path_buf();
        let c = c.clone();
        let h = match &shared {
            Some(h) => h.share(),
            None => crate::sched::open_handle(&root, &c.layout),
        };
        handles.push(std::thread::spawn(move || {
            let mut rng = Rng::new(c.seed.wrapping_mul(1_000_003).wrapping_add(tid as u64));
            let mut content: Option<(String, String)> = None;
            let mut error: Option<(String, String)> = None;
            let mut hits = 0u64;
            let adversary = c.with_adversary && tid == n - 1;
            for i in 0..c.ops {
                let ks = key_for(rng.below(3) as u8);
                let size = *rng.pick(&[1usize, 17, 17, 4096, 8193, 70_000]);
                let val = Val::new(&ks.name, tid as u32 + 1, i, size);
                if adversary {
                    for d in crate::sched::cache_dirs(&root, &c.layout) {
                        let _ = std::fs::remove_file(d.join(&ks.name));
                    }
                    continue;
                }
                let stacked = c.layout.kind >= 2;
                let kind = match rng.below(if stacked { 8 } else { 5 }) {
                    0 => OpKind::Set,
                    1 => OpKind::Put,
                    2 | 3 => OpKind::Get,
                    4 => OpKind::Touch,
                    5 => OpKind::Ensure,
                    6 => OpKind::GouPromote,
                    _ => OpKind::GouReplace,
                };
                let op = Op { kind, key: ks.clone(), val, pop: Pop::Value, nosy: false, link_from: None };
                let (ret, _) = exec(&root, &h, &op);
                match &ret {
                    Ret::File(g) => {
                        hits += 1;
                        match &g.val {
                            Ok(v) => {
                                let plausible = v.key == ks.name && ((v.writer as usize >= 1 && v.writer as usize <= n && v.seq < c.ops) || v.writer == 60 || v.writer == 61);
                                if !plausible && content.is_none() {
                                    content = Some(("c01:foreign-content".into(), format!("thread {} {:?}({}) read {}", tid, kind, ks.name, v.header())));
                                }
                            }
                            Err(e) => {
                                if content.is_none() {
                                    content = Some(("c01:partial-content".into(), format!("thread {} {:?}({}) obtained a handle yielding {} bytes that are not one complete value: {}", tid, kind, ks.name, g.raw_len, e)));
                                }
                            }
                        }
                    }
                    Ret::Err(e) => {
                        if error.is_none() {
                            error = Some((format!("c05:error:{}:{}", if kind.is_lookup() && !kind.writes() { "lookup" } else if kind == OpKind::Touch { "touch" } else { "write" }, e.kind), format!("thread {} {:?}({}) returned Err({} {:?}: {}) under real parallel load", tid, kind, ks.name, e.kind, e.os, e.msg)));
                        }
                    }
                    Ret::Panic(m) => {
                        if error.is_none() {
                            error = Some(("c05:panic".into(), format!("thread {} {:?}({}) panicked: {}", tid, kind, ks.name, m)));
                        }
                    }
                    _ => {}
                }
            }
            (content, error, hits)
        }));
    }
    let mut out = StressOut { ops: c.threads as u64 * c.ops as u64, lookups_hit: 0, content_violation: None, error_violation: None };
    for h in handles {
        if let Ok((c1, e1, hits)) = h.join() {
            out.lookups_hit += hits;
            if out.content_violation.is_none() {
                out.content_violation = c1;
            }
            if out.error_violation.is_none() {
                out.error_violation = e1;
            }
        }
    }
    // final state: every visible file is a complete value for its name
    if out.content_violation.is_none() {
        if let Err(e) = crate::sched::monitor_dirs(root, &c.layout) {
            out.content_violation = Some(("c01:torn-publication".into(), format!("after the stress run: {}", e)));
        }
    }
    crate::sched::clean(root);
    out
}

/// The stress phase of a check: `which` = "C01" (content) or "C05" (errors).
pub fn phase(ctx: &Ctx, which: &str, rep: &mut Report) {
    let scratch = Scratch::new("stress");
    let mut rng = ctx.rng(4242);
    let rounds = ctx.share(ctx.scale(0, 320));
    for r in 0..rounds {
        let kind = rng.below(4) as u8;
        let shards = 2 + rng.below(2) as u8;
        let cap = rng.below(4) as usize;
        let layout = Layout {
            kind,
            shards,
            capacity: if kind % 2 == 1 { cap.max(1) * shards as usize } else { cap },
            shared_handle: rng.chance(1, 2),
            preload_writer: vec![0, 1],
            preload_reader: if kind >= 2 { vec![0, 2] } else { vec![] },
            dirs_missing: rng.chance(1, 4),
            checker: false,
            no_hard_links: false,
            stale_debris: false,
        };
        let c = StressCase { layout, threads: 8, ops: 1500, seed: ctx.seed.wrapping_add(r).wrapping_mul(31).wrapping_add(ctx.worker as u64), with_adversary: which == "C05" && rng.chance(1, 2) };
        let out = run(&scratch.path, &c);
        rep.evaluations += 1;
        rep.nontrivial.insert(fnv(format!("stress{:?}", c).as_bytes()));
        rep.extra_add("stress_operations_under_real_parallelism", out.ops);
        rep.label("real-parallel stress round (8 threads x 1500 operations)");
        let v = if which == "C01" { out.content_violation } else { out.error_violation };
        if let Some((sig, detail)) = v {
            rep.violation(&sig, format!("[real-parallel stress, not replayable as an interleaving] {}", detail), serde_json::json!({"stress": c}));
        }
    }
    if rounds > 0 {
        rep.assumptions.insert("thorough tier: real-parallel stress rounds (8 native threads, separate or shared handles, no scheduler) complement the scheduled exploration; a failure found there is reported with the stress configuration as replay".into());
    }
}
