//! C08 — the eviction planner equals the classical Second Chance queue on every input.
use crate::clockq::{accepts, validate_predicate, Item};
use crate::common::*;
use kismet_cache::second_chance::{Entry, Update};
use proptest::prelude::*;
use serde_json::json;

#[derive(Clone, Debug)]
struct E {
    id: usize,
    rank: u64,
    acc: bool,
}
impl Entry for E {
    type Rank = u64;
    fn rank(&self) -> u64 {
        self.rank
    }
    fn accessed(&self) -> bool {
        self.acc
    }
}

/// Runs the real planner on identity-tagged entries and judges the plan.
pub fn judge(input: &[(u64, bool)], capacity: usize) -> Result<(), (String, String)> {
    let entries: Vec<E> = input.iter().enumerate().map(|(id, (rank, acc))| E { id, rank: *rank, acc: *acc }).collect();
    let items: Vec<Item<u64>> = entries.iter().map(|e| Item { id: e.id, rank: e.rank, accessed: e.acc }).collect();
    let res = std::panic::catch_unwind(|| Update::new(entries, capacity));
    let plan = match res {
        Ok(p) => p,
        Err(_) => return Err(("planner:panic".into(), "the planner panicked".into())),
    };
    // entries handed back must be the very entries handed in (rank/flag unchanged)
    for e in plan.to_evict.iter().chain(plan.to_move_back.iter()) {
        match items.get(e.id) {
            Some(i) if i.rank == e.rank && i.accessed == e.acc => {}
            _ => return Err(("planner:invented".into(), format!("plan contains an entry that is not an input entry: {:?}", e))),
        }
    }
    let ev: Vec<usize> = plan.to_evict.iter().map(|e| e.id).collect();
    let mb: Vec<usize> = plan.to_move_back.iter().map(|e| e.id).collect();
    accepts(&items, capacity, &ev, &mb).map_err(|why| {
        let sig = if why.contains("must evict exactly") {
            "planner:count"
        } else if why.contains("twice") || why.contains("invented") {
            "planner:dup-or-invented"
        } else if why.contains("n <= capacity") {
            "planner:nonempty-plan-within-capacity"
        } else if why.contains("queue (rank) order") {
            "planner:reprieve-order"
        } else {
            "planner:not-second-chance"
        };
        (sig.to_string(), format!("{} — plan: evict ids {:?}, move back ids {:?}", why, ev, mb))
    })
}

fn replay_json(input: &[(u64, bool)], capacity: usize) -> serde_json::Value {
    json!({"check": "C08", "entries": input.iter().map(|(r, a)| json!([r.to_string(), a])).collect::<Vec<_>>(), "capacity": capacity.to_string()})
}

/// the oldest `k` entries (by rank) are all accessed, the rest keep their random flags: a long
/// "hot prefix" that a windowed/partial selection must scan through
fn hot_prefix(input: &mut [(u64, bool)], r: u64) {
    let n = input.len();
    if n == 0 {
        return;
    }
    let mut ranks: Vec<u64> = input.iter().map(|e| e.0).collect();
    ranks.sort();
    let k = (r as usize) % (n + 1);
    let threshold = ranks[k.min(n - 1)];
    for e in input.iter_mut() {
        if e.0 <= threshold {
            e.1 = true;
        }
    }
}

pub fn replay(case: &serde_json::Value) -> Result<(), String> {
    let entries: Vec<(u64, bool)> = case["entries"].as_array().ok_or("entries")?.iter().map(|e| (e[0].as_str().unwrap().parse().unwrap(), e[1].as_bool().unwrap())).collect();
    let capacity: usize = case["capacity"].as_str().ok_or("capacity")?.parse().map_err(|_| "capacity")?;
    judge(&entries, capacity).map_err(|(s, d)| format!("{}: {}", s, d))
}

pub fn run(ctx: &Ctx) -> Report {
    let mut rep = Report { exhaustive: true, ..Default::default() };

    // 0. oracle self-test (every worker validates a slice would be wasteful: worker 0 does it)
    if ctx.worker == 0 {
        let max_n = if ctx.tier == Tier::Thorough { 5 } else { 4 };
        match validate_predicate(max_n, 3) {
            Ok((inputs, cands)) => {
                rep.extra.insert("oracle_selftest_inputs".into(), json!(inputs));
                rep.extra.insert("oracle_selftest_candidate_plans".into(), json!(cands));
            }
            Err(e) => {
                rep.inconclusive.push(format!("oracle self-test failed: {}", e));
                return rep;
            }
        }
    }

    // 1. exhaustive: all sequences of <= L entries over 4 ranks x 2 flags, capacities 0..=8
    let max_len = if ctx.tier == Tier::Thorough { 8usize } else { 7usize };
    let syms = 8u64;
    let mut global = 0u64;
    'outer: for n in 0..=max_len {
        let total = syms.pow(n as u32);
        for code in 0..total {
            if rep.violations.len() >= 3 {
                rep.exhaustive = false;
                break 'outer;
            }
            global += 1;
            if !ctx.mine(global) {
                continue;
            }
            let mut c = code;
            let input: Vec<(u64, bool)> = (0..n)
                .map(|_| {
                    let s = c % syms;
                    c /= syms;
                    (s / 2, s % 2 == 1)
                })
                .collect();
            for cap in 0..=(max_len + 1) {
                rep.evaluations += 1;
                if n > cap {
                    rep.nontrivial_enum += 1;
                }
                if let Err((sig, detail)) = judge(&input, cap) {
                    rep.violation(&sig, detail, replay_json(&input, cap));
                }
            }
            if code % 400_003 == 7 {
                rep.sample(replay_json(&input, n.saturating_sub(1)));
            }
        }
    }
    rep.label_n(if max_len == 8 { "exhaustive_len<=8_4ranks_2flags_cap0..9" } else { "exhaustive_len<=7_4ranks_2flags_cap0..8" }, rep.evaluations);

    // 2. random large inputs through proptest (shrinks to a minimal counterexample)
    let cases = ctx.share(ctx.scale(20_000, 300_000)) as u32;
    let strat = (
        prop::collection::vec((any::<u64>(), any::<bool>()), 0..5000),
        0u8..9, // rank mode
        0u8..8, // capacity mode
        any::<u64>(),
    );
    let rep_cell = std::cell::RefCell::new(&mut rep);
    let found = prop_search(ctx, 8, cases, 2000, &strat, |(raw, rmode, cmode, capr), exploring| {
        let n = raw.len();
        let mut input: Vec<(u64, bool)> = raw.clone();
        match rmode {
            1 => input.iter_mut().for_each(|e| e.0 %= 3),
            2 => input.sort(),
            3 => {
                input.sort();
                input.reverse()
            }
            4 => input.iter_mut().for_each(|e| e.0 = u64::MAX - (e.0 % 2)),
            5 | 6 => hot_prefix(&mut input, *capr),
            7 | 8 => input.iter_mut().for_each(|e| {
                e.0 %= 7;
                e.1 = false;
            }),
            _ => {}
        }
        let cap = match cmode {
            0 => 0,
            1 => 1,
            2 => n.saturating_sub(1),
            3 => n,
            4 => n + 1,
            5 => usize::MAX,
            6 => n / 2,
            _ if *rmode >= 5 => n.saturating_sub(1 + (*capr as usize >> 8) % 12),
            _ => (*capr as usize) % (n + 2),
        };
        if exploring {
            let mut rep = rep_cell.borrow_mut();
            rep.evaluations += 1;
            if n > cap {
                let h = fnv(format!("{:?}{}", input, cap).as_bytes());
                rep.nontrivial.insert(h);
            }
            rep.label(match rmode {
                1 => "random:3-value ranks",
                2 => "random:sorted",
                3 => "random:reverse-sorted",
                4 => "random:ranks at u64::MAX",
                5 | 6 => "random:hot prefix (the oldest entries are all accessed), slightly over capacity",
                7 | 8 => "random:nothing accessed, 7 distinct ranks (ties at the cutoff), slightly over capacity",
                _ => "random:full-width ranks",
            });
            if n >= 1000 {
                rep.label("random:n>=1000");
            }
        }
        judge(&input, cap).map_err(|(s, d)| format!("{}|{}", s, d))
    });
    drop(rep_cell);
    if let Some((msg, (raw, rmode, cmode, capr))) = found {
        // re-derive the concrete failing input for the replay file
        let n = raw.len();
        let mut input = raw.clone();
        match rmode {
            1 => input.iter_mut().for_each(|e| e.0 %= 3),
            2 => input.sort(),
            3 => {
                input.sort();
                input.reverse()
            }
            4 => input.iter_mut().for_each(|e| e.0 = u64::MAX - (e.0 % 2)),
            5 | 6 => hot_prefix(&mut input, capr),
            7 | 8 => input.iter_mut().for_each(|e| {
                e.0 %= 7;
                e.1 = false;
            }),
            _ => {}
        }
        let cap = match cmode {
            0 => 0,
            1 => 1,
            2 => n.saturating_sub(1),
            3 => n,
            4 => n + 1,
            5 => usize::MAX,
            6 => n / 2,
            _ if rmode >= 5 => n.saturating_sub(1 + (capr as usize >> 8) % 12),
            _ => (capr as usize) % (n + 2),
        };
        let (sig, detail) = msg.split_once('|').map(|(a, b)| (a.to_string(), b.to_string())).unwrap_or((String::from("planner:unknown"), msg.clone()));
        rep.violation(&sig, detail, replay_json(&input, cap));
    }
    rep.sample(json!({"kind": "random", "example": "vec of (rank,flag) up to 5000 entries; capacity from {0,1,n-1,n,n+1,usize::MAX,n/2,random}"}));
    rep
}
