//! C20 — per-operation resource use is constant.
use crate::common::*;
use crate::fe::*;
use crate::matrix;
use serde::{Deserialize, Serialize};
use serde_json::json;
use std::collections::BTreeMap;
use std::path::Path;

#[derive(Clone, Debug, Serialize, Deserialize)]
pub struct Case {
    /// 0 plain, 1 sharded(4), 2 stack: plain writer, 3 stack: sharded writer + plain reader, 4 stack: plain writer + sharded reader + plain reader
    pub fe: u8,
    /// 0 get hit, 1 get miss, 2 touch hit, 3 touch miss, 4 set new, 5 set existing, 6 put new, 7 put existing
    pub op: u8,
    /// populate through the handle under test (true) or plant files behind its back with a fresh handle (false)
    pub through_handle: bool,
    pub sizes: Vec<usize>,
}

const OPNAMES: &[&str] = &["get hit", "get miss", "touch hit", "touch miss", "set new", "set existing", "put new", "put existing"];

fn spec_for(fe: u8) -> (Option<DirSpec>, Option<StackSpec>) {
    let big = 1usize << 40;
    match fe {
        0 => (Some(DirSpec::Plain { dir: "W".into(), cap: big }), None),
        1 => (Some(DirSpec::Sharded { dir: "W".into(), shards: 4, cap: big }), None),
        2 => (None, Some(StackSpec { writer: Some(DirSpec::Plain { dir: "W".into(), cap: big }), readers: vec![], checker: Checker::None, auto_sync: true })),
        3 => (None, Some(StackSpec { writer: Some(DirSpec::Sharded { dir: "W".into(), shards: 4, cap: big }), readers: vec![DirSpec::Plain { dir: "R0".into(), cap: 0 }], checker: Checker::None, auto_sync: true })),
        _ => (None, Some(StackSpec { writer: Some(DirSpec::Plain { dir: "W".into(), cap: big }), readers: vec![DirSpec::Sharded { dir: "R0".into(), shards: 3, cap: 0 }, DirSpec::Plain { dir: "R1".into(), cap: 0 }], checker: Checker::None, auto_sync: true })),
    }
}

fn fill_key(i: usize) -> KeySpec {
    KeySpec::new(&format!("fill{:05}", i), (i as u64 + 1).wrapping_mul(0x9E3779B97F4A7C15), (i as u64 + 7).wrapping_mul(0xC2B2AE3D27D4EB4F))
}

/// Runs the operation with the write directory holding `n` other entries; returns the call multiset.
fn measure(root: &Path, c: &Case, n: usize) -> Result<(BTreeMap<String, u64>, Vec<crate::shim::Event>, Ret), String> {
    let (dspec, sspec) = spec_for(c.fe);
    let wspec = dspec.clone().or_else(|| sspec.as_ref().and_then(|s| s.writer.clone())).unwrap();
    let target = KeySpec::new("target", 0xaaaa_bbbb_cccc_dddd, 0x1111_2222_3333_4444);
    let exists = matches!(c.op, 0 | 2 | 5 | 7);
    crate::shim::bypass(|| std::fs::create_dir_all(root.join("W")).unwrap());
    if let Some(s) = &sspec {
        for r in &s.readers {
            crate::shim::bypass(|| std::fs::create_dir_all(root.join(r.dir())).unwrap());
        }
    }
    let world = trace_world(&[root]);
    let handle = match (&dspec, &sspec) {
        (Some(d), _) => open_dir(root, d),
        (_, Some(s)) => open_stack(root, s),
        _ => unreachable!(),
    };
    let old = now_ns() - 86_400_000_000_000;
    // populate
    if c.through_handle {
        let (r, _) = traced(&world, || {
            script_rng(false, 1);
            for i in 0..n {
                let k = fill_key(i);
                let op = Op { kind: if i % 2 == 0 { OpKind::Set } else { OpKind::Put }, key: k.clone(), val: Val::new(&k.name, 1, i as u32, 17), pop: Pop::Value, nosy: false, link_from: None };
                let (ret, _) = exec(root, &handle, &op);
                if ret.is_err() {
                    return Err(format!("populating failed: {}", ret.short()));
                }
            }
            Ok(())
        });
        r.map_err(|p| p)??;
        if exists {
            // always in the key's primary shard: which of the two candidate shards holds an entry
            // legitimately changes a lookup by one open, independently of the number of entries
            let d = &wspec.candidate_dirs(root, &target)[0];
            plant_file(&d.join("target"), &Val::new("target", 2, 0, 17).encode(), 0o444);
            set_times_ns(&d.join("target"), old - 120_000_000_000, old).unwrap();
        }
    } else {
        for i in 0..n {
            let k = fill_key(i);
            let d = &wspec.candidate_dirs(root, &k)[0];
            let p = d.join(&k.name);
            plant_file(&p, &Val::new(&k.name, 1, i as u32, 17).encode(), 0o444);
            set_times_ns(&p, old - 120_000_000_000, old).unwrap();
        }
        if exists {
            let d = &wspec.candidate_dirs(root, &target)[0];
            plant_file(&d.join("target"), &Val::new("target", 2, 0, 17).encode(), 0o444);
            set_times_ns(&d.join("target"), old - 120_000_000_000, old).unwrap();
        }
    }
    // make sure the shard directories the operation will use exist in every size (a missing
    // directory changes the call sequence for a reason unrelated to the number of entries)
    for d in wspec.candidate_dirs(root, &target) {
        crate::shim::bypass(|| std::fs::create_dir_all(&d).unwrap());
    }
    let kind = match c.op {
        0 | 1 => OpKind::Get,
        2 | 3 => OpKind::Touch,
        4 | 5 => OpKind::Set,
        _ => OpKind::Put,
    };
    let op = Op { kind, key: target.clone(), val: Val::new("target", 3, 1, 17), pop: Pop::Value, nosy: false , link_from: None};
    let (r, ev) = traced(&world, || {
        script_rng(false, 1);
        exec(root, &handle, &op).0
    });
    let leaked = world.open_fds();
    let ret = r.map_err(|p| format!("panic: {}", p))?;
    if !leaked.is_empty() {
        return Err(format!("descriptors still open after the call: {:?}", leaked.iter().map(|x| x.1.path.clone()).collect::<Vec<_>>()));
    }
    let mut counts: BTreeMap<String, u64> = BTreeMap::new();
    for e in &ev {
        // source staging is the application's own work
        if e.path.contains("/staging/") && e.call != "rename" && e.call != "link" {
            continue;
        }
        *counts.entry(e.call.to_string()).or_insert(0) += 1;
    }
    drop(handle);
    crate::shim::bypass(|| {
        if let Ok(rd) = std::fs::read_dir(root) {
            for e in rd.flatten() {
                let _ = std::fs::remove_dir_all(e.path());
            }
        }
    });
    Ok((counts, ev, ret))
}

pub fn judge(root: &Path, c: &Case) -> Result<(), (String, String)> {
    let mut base: Option<(usize, BTreeMap<String, u64>)> = None;
    for &n in &c.sizes {
        let (counts, ev, ret) = measure(root, c, n).map_err(|e| (if e.contains("descriptors still open") { "c20:descriptor-leak".to_string() } else { "c20:error".to_string() }, format!("{} with {} entries: {}", OPNAMES[c.op as usize], n, e)))?;
        if ret.is_err() {
            return Err(("c20:error".into(), format!("{} failed with {} entries: {}", OPNAMES[c.op as usize], n, ret.short())));
        }
        if ev.iter().any(|e| matches!(e.call, "opendir" | "readdir")) {
            return Err(("c20:lists-directory".into(), format!("{} on front-end {} lists a directory although maintenance was scripted not to fire ({} entries{})", OPNAMES[c.op as usize], c.fe, n, if c.through_handle { ", populated through the same handle" } else { "" })));
        }
        if ev.iter().any(|e| matches!(e.call, "flock" | "lockf" | "fcntl_lock")) {
            return Err(("c20:lock".into(), format!("{} takes a lock", OPNAMES[c.op as usize])));
        }
        // peak descriptors
        let mut cur = 0i64;
        let mut peak = 0i64;
        for e in &ev {
            match e.call {
                "open" | "opendir" if e.ok() => {
                    cur += 1;
                    peak = peak.max(cur);
                }
                "close" | "closedir" => cur -= 1,
                _ => {}
            }
        }
        if peak > 2 {
            return Err(("c20:peak-descriptors".into(), format!("{} held {} files open at once", OPNAMES[c.op as usize], peak)));
        }
        if c.op <= 1 {
            let mut per_dir: BTreeMap<String, u64> = BTreeMap::new();
            let root_s = root.to_string_lossy().into_owned();
            for e in ev.iter().filter(|e| e.call == "open") {
                let top = e.path.strip_prefix(&format!("{}/", root_s)).unwrap_or(&e.path).split('/').next().unwrap_or("").to_string();
                *per_dir.entry(top).or_insert(0) += 1;
            }
            if let Some((d, k)) = per_dir.iter().find(|(_, k)| **k > 2) {
                return Err(("c20:too-many-opens".into(), format!("lookup made {} open attempts in cache directory {}", k, d)));
            }
        }
        match &base {
            None => base = Some((n, counts)),
            Some((n0, b)) => {
                if *b != counts {
                    return Err(("c20:count-depends-on-size".into(), format!("{} on front-end {}{}: call counts differ between {} entries {:?} and {} entries {:?}", OPNAMES[c.op as usize], c.fe, if c.through_handle { " (populated through the same handle)" } else { "" }, n0, b, n, counts)));
                }
            }
        }
    }
    Ok(())
}

pub fn replay(v: &serde_json::Value) -> Result<(), String> {
    if v.get("point").is_some() {
        return matrix::replay_point("C20", v);
    }
    let c: Case = serde_json::from_value(v["case"].clone()).map_err(|e| e.to_string())?;
    drop_privileges();
    let scratch = Scratch::new("c20r");
    judge(&scratch.path, &c).map_err(|(s, d)| format!("{}: {}", s, d))
}

pub fn run(ctx: &Ctx) -> Report {
    // descriptor clauses over the stack matrix (includes three-reader stacks and all checkers)
    let mut rep = matrix::run_matrix(ctx, "C20", "C14", |_, r| r.peak_fds >= 2);
    let matrix_points = rep.evaluations;
    rep.extra.insert("matrix_points_for_descriptor_clauses".into(), json!(matrix_points));
    let scratch = Scratch::new("c20");
    let sizes: Vec<usize> = if ctx.tier == Tier::Thorough { vec![0, 10, 100, 600, 2000, 5000] } else { vec![0, 10, 100, 2000] };
    let mut i = 0u64;
    for fe in 0..5u8 {
        for op in 0..8u8 {
            for through in [false, true] {
                i += 1;
                if !ctx.mine(i) {
                    continue;
                }
                let c = Case { fe, op, through_handle: through, sizes: sizes.clone() };
                let r = judge(&scratch.path, &c);
                rep.evaluations += sizes.len() as u64;
                rep.nontrivial_enum += sizes.iter().filter(|s| **s >= 100).count() as u64;
                rep.label(&format!("size-invariance:{}", OPNAMES[op as usize]));
                if rep.samples.len() < 3 {
                    rep.sample(json!({"case": c}));
                }
                if let Err((sig, detail)) = r {
                    rep.violation(&sig, detail, json!({"case": c}));
                }
            }
        }
    }
    rep
}
