//! Concurrent executions under a cooperative scheduler: an execution IS an interleaving at
//! filesystem-call granularity and is replayable from its strategy.
use crate::common::*;
use crate::fe::*;
use crate::shim::{self, Event, SchedView, World, WorldCfg};
use serde::{Deserialize, Serialize};
use std::path::{Path, PathBuf};
use std::sync::{Arc, Mutex};

#[derive(Clone, Debug, PartialEq, Eq, Hash, Serialize, Deserialize)]
pub struct POp {
    pub kind: PKind,
    pub key: u8,
    pub size: u8,
    /// lookups: keep the returned handle and read it only at the end of the program
    pub hold: bool,
}

#[derive(Clone, Copy, Debug, PartialEq, Eq, Hash, Serialize, Deserialize)]
pub enum PKind {
    Set,
    Put,
    Get,
    Touch,
    Ensure,
    Promote,
    Replace,
    /// a write of a private key whose only purpose is to run maintenance
    Maintain,
    /// external deletion of one currently published cache file (not a temp file)
    Adversary,
    /// get through a ReadOnlyCache laid over the writers' directory
    RoGet,
    /// a writer that stalled for hours between creating its temp file (in the cache's own
    /// `.kismet_temp`) and publishing it with set
    StaleSet,
    /// set whose value file was staged on ANOTHER filesystem (rename/link fail with EXDEV)
    SetOtherFs,
    /// the public raw layer, without the front-end's single retry: raw_cache::insert_or_touch
    RawPut,
}

#[derive(Clone, Debug, PartialEq, Eq, Hash, Serialize, Deserialize)]
pub struct Layout {
    /// 0 plain, 1 sharded, 2 stacked over plain + preloaded reader, 3 stacked over sharded + preloaded reader
    pub kind: u8,
    pub shards: u8,
    pub capacity: usize,
    /// participants share one handle (clones) instead of having one each
    pub shared_handle: bool,
    /// keys preloaded in the writer / in the read-only level (indexes)
    pub preload_writer: Vec<u8>,
    pub preload_reader: Vec<u8>,
    /// start with the cache directory (and shard directories) missing
    pub dirs_missing: bool,
    /// stacked layouts: configure a byte-equality consistency checker
    #[serde(default)]
    pub checker: bool,
    /// the filesystem has no hard links (link/linkat fail with EPERM)
    #[serde(default)]
    pub no_hard_links: bool,
    /// two-hour-old debris of crashed writers sits in every `.kismet_temp`
    #[serde(default)]
    pub stale_debris: bool,
}

#[derive(Clone, Debug, PartialEq, Eq, Hash, Serialize, Deserialize)]
pub enum Sched {
    /// 0 = keep running the current participant, k>0 = switch to the k-th other runnable one
    Walk(Vec<u8>),
    /// run `order[0]`; after `at` of its steps preempt it and run the others to completion in order, then resume it
    Preempt { order: Vec<usize>, at: u32 },
    /// two preemptions: as Preempt, but the first peer is itself preempted after `at2` of its steps in favour of the remaining ones
    Preempt2 { order: Vec<usize>, at: u32, at2: u32 },
    /// PCT: initial priorities, and step numbers at which the running participant's priority drops
    Pct { prio: Vec<u8>, changes: Vec<u32> },
    /// freeze participant `frozen` forever after `at` of its steps, run the others alone one after
    /// the other; the frozen one is released only when everybody else is done
    Freeze { frozen: usize, at: u32 },
    /// explicit bounded-preemption schedule: run participant `who` for `steps` of its steps, segment
    /// after segment (the same participant may be preempted several times, by different peers);
    /// afterwards everybody runs to completion in index order
    Segments(Vec<(u8, u8)>),
    /// random-walk prefix, then only participant `solo` runs (everybody else frozen where they
    /// are) until it is done; the others are released afterwards
    PrefixSolo { prefix: Vec<u8>, solo: usize },
}

pub const SIZES_C: &[usize] = &[1, 17, 4096, 8193, 70_000];

pub fn key_for(i: u8) -> KeySpec {
    let hashes = [0x0123_4567_89ab_cdefu64, 0x8000_0000_0000_0001, 7];
    let i = (i % 3) as usize;
    KeySpec::new(&format!("k{}", i), hashes[i], !hashes[i])
}

pub fn writer_spec(l: &Layout) -> DirSpec {
    if l.kind % 2 == 1 {
        DirSpec::Sharded { dir: "W".into(), shards: l.shards.max(2) as usize, cap: l.capacity }
    } else {
        DirSpec::Plain { dir: "W".into(), cap: l.capacity }
    }
}

pub fn cache_dirs(root: &Path, l: &Layout) -> Vec<PathBuf> {
    match writer_spec(l) {
        DirSpec::Plain { dir, .. } => vec![root.join(dir)],
        DirSpec::Sharded { dir, shards, .. } => (0..shards).map(|s| root.join(&dir).join(crate::shardoracle::dir_name(s as u64))).collect(),
    }
}

pub fn prepare(root: &Path, l: &Layout) {
    let w = writer_spec(l);
    let old = now_ns() - 86_400_000_000_000;
    if !l.dirs_missing {
        shim::bypass(|| std::fs::create_dir_all(root.join("W")).unwrap());
    }
    for k in &l.preload_writer {
        if l.dirs_missing {
            break;
        }
        let ks = key_for(*k);
        let d = &w.candidate_dirs(root, &ks)[0];
        let p = d.join(&ks.name);
        plant_file(&p, &Val::new(&ks.name, 60, *k as u32, 17).encode(), 0o444);
        // every other preloaded entry carries a read mark (it will be reprieved, not evicted)
        let m = old + *k as i128;
        set_times_ns(&p, if *k % 2 == 0 { m + 1 } else { m - 120_000_000_000 }, m).unwrap();
    }
    if l.stale_debris && !l.dirs_missing {
        let two_hours_ago = now_ns() - 2 * 3_600_000_000_000;
        for d in cache_dirs(root, l) {
            for i in 0..3 {
                let p = d.join(".kismet_temp").join(format!("debris{}", i));
                plant_file(&p, b"debris of a crashed writer", 0o600);
                let _ = set_times_ns(&p, two_hours_ago, two_hours_ago);
            }
        }
    }
    if l.kind >= 2 {
        shim::bypass(|| std::fs::create_dir_all(root.join("R")).unwrap());
        for k in &l.preload_reader {
            let ks = key_for(*k);
            let p = root.join("R").join(&ks.name);
            plant_file(&p, &Val::new(&ks.name, 61, *k as u32, 4096).encode(), 0o444);
            set_times_ns(&p, old - 120_000_000_000, old).unwrap();
        }
    }
}

pub fn open_handle(root: &Path, l: &Layout) -> Handle {
    let w = writer_spec(l);
    if l.kind >= 2 {
        open_stack(root, &StackSpec { writer: Some(w), readers: vec![DirSpec::Plain { dir: "R".into(), cap: 0 }], checker: if l.checker { Checker::ByteEq } else { Checker::None }, auto_sync: false })
    } else {
        open_dir(root, &w)
    }
}

#[derive(Clone, Debug, Serialize)]
pub struct HistEv {
    pub tid: usize,
    pub op: usize,
    pub pop: POp,
    pub call_seq: u64,
    pub ret_seq: u64,
    pub ret: Ret,
    pub val: Option<Val>,
    pub steps: u32,
    pub over_budget: bool,
}

pub struct ExecOut {
    pub hist: Vec<HistEv>,
    pub events: Vec<Event>,
    pub picks: Vec<usize>,
    pub monitor_err: Option<String>,
    pub sched_steps: u64,
}

#[derive(Clone, Copy, Debug, Default)]
pub struct RunOpts {
    pub yield_data: bool,
    pub monitor: bool,
    pub budget: u32,
}

fn make_decide(strategy: &Sched, n: usize, monitor: Option<Box<dyn FnMut() + Send>>) -> Box<dyn FnMut(&SchedView) -> usize + Send> {
    let strategy = strategy.clone();
    let mut monitor = monitor;
    let mut pos = 0usize;
    let mut seg_used = 0u32;
    let mut taken = vec![0u32; n]; // steps granted to each participant
    let mut prio: Vec<i32> = match &strategy {
        Sched::Pct { prio, .. } => (0..n).map(|i| 100 + *prio.get(i).unwrap_or(&0) as i32).collect(),
        _ => vec![0; n],
    };
    Box::new(move |v: &SchedView| {
        if let Some(m) = monitor.as_mut() {
            m();
        }
        let runnable = &v.runnable;
        let pick = match &strategy {
            Sched::Walk(bytes) => {
                let cur = v.last.filter(|l| runnable.contains(l));
                let b = bytes.get(pos).copied().unwrap_or(0);
                pos += 1;
                match cur {
                    Some(c) if b == 0 => c,
                    Some(c) => {
                        let others: Vec<usize> = runnable.iter().copied().filter(|x| *x != c).collect();
                        if others.is_empty() {
                            c
                        } else {
                            others[(b as usize - 1) % others.len()]
                        }
                    }
                    None => runnable[(b as usize) % runnable.len()],
                }
            }
            Sched::Preempt { order, at } => {
                let first = order[0];
                if runnable.contains(&first) && taken[first] < *at {
                    first
                } else {
                    order.iter().skip(1).copied().find(|p| runnable.contains(p)).unwrap_or_else(|| if runnable.contains(&first) { first } else { runnable[0] })
                }
            }
            Sched::Preempt2 { order, at, at2 } => {
                let first = order[0];
                let second = *order.get(1).unwrap_or(&first);
                if runnable.contains(&first) && taken[first] < *at {
                    first
                } else if runnable.contains(&second) && taken[second] < *at2 {
                    second
                } else {
                    order.iter().skip(2).copied().find(|p| runnable.contains(p)).or_else(|| if runnable.contains(&second) { Some(second) } else { None }).unwrap_or_else(|| if runnable.contains(&first) { first } else { runnable[0] })
                }
            }
            Sched::Pct { changes, .. } => {
                let p = *runnable.iter().max_by_key(|i| (prio[**i], usize::MAX - **i)).unwrap();
                if changes.contains(&(v.step as u32)) {
                    prio[p] = -(v.step as i32) - 1;
                }
                p
            }
            Sched::Segments(segs) => {
                // `pos` = current segment; `seg_taken` is kept in taken[] of a virtual slot via closure state
                let mut pick = None;
                while pos < segs.len() {
                    let (who, steps) = segs[pos];
                    let who = who as usize % n;
                    if runnable.contains(&who) && seg_used < steps as u32 {
                        seg_used += 1;
                        pick = Some(who);
                        break;
                    }
                    pos += 1;
                    seg_used = 0;
                }
                pick.unwrap_or(runnable[0])
            }
            Sched::PrefixSolo { prefix, solo } => {
                if pos < prefix.len() {
                    let cur = v.last.filter(|l| runnable.contains(l));
                    let b = prefix[pos];
                    pos += 1;
                    match cur {
                        Some(c) if b == 0 => c,
                        Some(c) => {
                            let others: Vec<usize> = runnable.iter().copied().filter(|x| *x != c).collect();
                            if others.is_empty() { c } else { others[(b as usize - 1) % others.len()] }
                        }
                        None => runnable[(b as usize) % runnable.len()],
                    }
                } else if runnable.contains(solo) {
                    *solo
                } else {
                    runnable[0]
                }
            }
            Sched::Freeze { frozen, at } => {
                if runnable.contains(frozen) && taken[*frozen] < *at {
                    *frozen
                } else {
                    runnable.iter().copied().find(|p| p != frozen).unwrap_or(*frozen)
                }
            }
        };
        let pick = if runnable.contains(&pick) { pick } else { runnable[0] };
        taken[pick] += 1;
        pick
    })
}

/// Every regular file outside `.kismet_temp` must already be a complete value for its own name.
pub fn monitor_dirs(root: &Path, l: &Layout) -> Result<(), String> {
    for d in cache_dirs(root, l) {
        let rd = match std::fs::read_dir(&d) {
            Ok(rd) => rd,
            Err(_) => continue,
        };
        for e in rd.flatten() {
            let name = e.file_name().to_string_lossy().into_owned();
            if name.starts_with('.') {
                continue;
            }
            let p = e.path();
            let meta = match std::fs::symlink_metadata(&p) {
                Ok(m) => m,
                Err(_) => continue,
            };
            if !meta.is_file() {
                continue;
            }
            match read_noatime(&p) {
                Ok(bytes) => match Val::decode(&bytes) {
                    Ok(v) if v.key == name => {}
                    Ok(v) => return Err(format!("{} holds a value for key {}", p.display(), v.key)),
                    Err(e) => {
                        // the file may have been replaced/removed between readdir and read
                        if std::fs::symlink_metadata(&p).map(|m2| { use std::os::unix::fs::MetadataExt; m2.ino() == meta.ino() }).unwrap_or(false) {
                            return Err(format!("{} is visible but is not a complete value: {}", p.display(), e));
                        }
                    }
                },
                Err(_) => continue,
            }
        }
    }
    Ok(())
}

fn perform(root: &Path, l: &Layout, h: &Handle, ro: &Option<Handle>, tid: usize, i: usize, p: &POp, held: &mut Vec<(usize, KeySpec, std::fs::File)>) -> (Ret, Option<Val>) {
    let ks = key_for(p.key);
    let size = SIZES_C[p.size as usize % SIZES_C.len()];
    let mut val = Val::new(&ks.name, tid as u32 + 1, i as u32, size);
    if l.checker && l.kind >= 2 && l.preload_reader.contains(&(p.key % 3)) && matches!(p.kind, PKind::Ensure | PKind::Promote) {
        // with a consistency checker the populated value must agree with the read-only copy
        val = Val::new(&ks.name, 61, (p.key % 3) as u32, 4096);
    }
    let mk = |kind: OpKind| Op { kind, key: ks.clone(), val: val.clone(), pop: Pop::Value, nosy: false, link_from: None };
    match p.kind {
        PKind::Set => (exec(root, h, &mk(OpKind::Set)).0, Some(val)),
        PKind::Put => (exec(root, h, &mk(OpKind::Put)).0, Some(val)),
        PKind::Touch => (exec(root, h, &mk(OpKind::Touch)).0, None),
        PKind::Ensure => (exec(root, h, &mk(if l.kind >= 2 { OpKind::Ensure } else { OpKind::Put })).0, Some(val)),
        PKind::Promote => (exec(root, h, &mk(if l.kind >= 2 { OpKind::GouPromote } else { OpKind::Get })).0, Some(val)),
        PKind::Replace => (exec(root, h, &mk(if l.kind >= 2 { OpKind::GouReplace } else { OpKind::Set })).0, Some(val)),
        PKind::Get | PKind::RoGet => {
            let handle = if p.kind == PKind::RoGet { ro.as_ref().unwrap_or(h) } else { h };
            if p.hold {
                let r = std::panic::catch_unwind(std::panic::AssertUnwindSafe(|| handle.lookup_file(&ks)));
                match r {
                    Ok(Ok(Some(f))) => {
                        held.push((i, ks.clone(), f));
                        (Ret::Unit, None) // filled in when the handle is finally read
                    }
                    Ok(Ok(None)) => (Ret::Miss, None),
                    Ok(Err(e)) => (Ret::Err(e.into()), None),
                    Err(_) => (Ret::Panic("lookup panicked".into()), None),
                }
            } else {
                (exec(root, handle, &mk(OpKind::Get)).0, None)
            }
        }
        PKind::SetOtherFs => {
            let dir = std::path::PathBuf::from(format!("/var/tmp/kv-xfs-{}", std::process::id()));
            let path = dir.join(format!("v-{}-{}", tid, i));
            let staged = shim::bypass(|| std::fs::create_dir_all(&dir).and_then(|_| std::fs::write(&path, val.encode())).is_ok());
            if !staged {
                return (Ret::Unit, None);
            }
            let r = std::panic::catch_unwind(std::panic::AssertUnwindSafe(|| match h {
                Handle::Plain(c) => c.set(&ks.name, &path),
                Handle::Sharded(c) => c.set(ks.key(), &path),
                Handle::Stack(c, _) => c.set(ks.key(), &path),
                Handle::Ro(..) => Ok(()),
            }));
            shim::bypass(|| {
                let _ = std::fs::remove_file(&path);
                // (leave nothing behind on the other filesystem; fails harmlessly if not yet empty)
                let _ = std::fs::remove_dir(&dir);
            });
            let ret = match r {
                Ok(Ok(())) => Ret::Unit,
                Ok(Err(e)) => Ret::Err(e.into()),
                Err(_) => Ret::Panic("set panicked".into()),
            };
            (ret, Some(val))
        }
        PKind::RawPut => {
            // (plain layouts only; elsewhere it degrades to an ordinary put)
            if l.kind != 0 || l.dirs_missing {
                return (exec(root, h, &mk(OpKind::Put)).0, Some(val));
            }
            let src = make_source(&crate::fe::staging(root), "raw", &val.encode());
            let dst = root.join("W").join(&ks.name);
            let r = std::panic::catch_unwind(|| kismet_cache::raw_cache::insert_or_touch(&src, &dst));
            let ret = match r {
                Ok(Ok(())) => Ret::Unit,
                Ok(Err(e)) => Ret::Err(e.into()),
                Err(_) => Ret::Panic("insert_or_touch panicked".into()),
            };
            (ret, Some(val))
        }
        PKind::StaleSet => {
            // the temp file was created two hours ago in the cache's own temp directory ...
            let dir = writer_spec(l).candidate_dirs(root, &ks)[0].join(".kismet_temp");
            let path = dir.join(format!("stalled-{}-{}", tid, i));
            shim::bypass(|| {
                std::fs::create_dir_all(&dir).unwrap();
                std::fs::write(&path, val.encode()).unwrap();
            });
            let old = now_ns() - 2 * 3_600_000_000_000;
            let _ = set_times_ns(&path, old, old);
            // ... and only now does the writer get to publish it
            shim::yield_now("stalled writer resumes");
            let r = std::panic::catch_unwind(std::panic::AssertUnwindSafe(|| match h {
                Handle::Plain(c) => c.set(&ks.name, &path),
                Handle::Sharded(c) => c.set(ks.key(), &path),
                Handle::Stack(c, _) => c.set(ks.key(), &path),
                Handle::Ro(..) => Ok(()),
            }));
            let ret = match r {
                Ok(Ok(())) => Ret::Unit,
                Ok(Err(e)) => Ret::Err(e.into()),
                Err(_) => Ret::Panic("set panicked".into()),
            };
            (ret, Some(val))
        }
        PKind::Maintain => {
            let name = format!("m{}", tid);
            let k = KeySpec::new(&name, ks.hash, ks.sec);
            let v = Val::new(&name, tid as u32 + 1, i as u32, 17);
            (exec(root, h, &Op { kind: OpKind::Set, key: k, val: v.clone(), pop: Pop::Value, nosy: false, link_from: None }).0, Some(v))
        }
        PKind::Adversary => {
            // pick a published file when scheduled, then unlink it (the unlink is a scheduling point)
            let mut files: Vec<PathBuf> = Vec::new();
            shim::bypass(|| {
                for d in cache_dirs(root, l) {
                    if let Ok(rd) = std::fs::read_dir(&d) {
                        for e in rd.flatten() {
                            if !e.file_name().to_string_lossy().starts_with('.') && e.path().is_file() {
                                files.push(e.path());
                            }
                        }
                    }
                }
            });
            files.sort();
            if !files.is_empty() {
                let victim = &files[(p.key as usize * 7 + p.size as usize) % files.len()];
                let _ = shim::app_phase(|| std::fs::remove_file(victim));
            }
            (Ret::Unit, None)
        }
    }
}

/// Runs `progs` (one per participant) under `strategy`.
pub fn run_conc(root: &Path, l: &Layout, progs: &[Vec<POp>], strategy: &Sched, opts: RunOpts) -> ExecOut {
    let n = progs.len();
    let world = World::new(WorldCfg { roots: vec![root.to_string_lossy().into_owned()], trace: true, capture_listings: false, yield_data: opts.yield_data, participants: n, deny_link: if l.no_hard_links { libc::EPERM } else { 0 }, ..Default::default() });
    let monitor_err: Arc<Mutex<Option<String>>> = Arc::new(Mutex::new(None));
    let monitor: Option<Box<dyn FnMut() + Send>> = if opts.monitor {
        let root = root.to_path_buf();
        let l = l.clone();
        let me = monitor_err.clone();
        Some(Box::new(move || {
            if let Err(e) = monitor_dirs(&root, &l) {
                let mut g = me.lock().unwrap();
                if g.is_none() {
                    *g = Some(e);
                }
            }
        }))
    } else {
        None
    };
    world.set_decide(make_decide(strategy, n, monitor));
    let shared = if l.shared_handle { Some(open_handle(root, l)) } else { None };
    let hist: Arc<Mutex<Vec<HistEv>>> = Arc::new(Mutex::new(Vec::new()));
    let mut threads = Vec::new();
    for (tid, prog) in progs.iter().enumerate() {
        let world = world.clone();
        let root = root.to_path_buf();
        let l = l.clone();
        let prog = prog.clone();
        let hist = hist.clone();
        let handle = match &shared {
            Some(h) => h.share(),
            None => open_handle(&root, &l),
        };
        let budget = opts.budget;
        threads.push(std::thread::spawn(move || {
            shim::enter_world(&world, tid);
            script_rng(true, tid as u64);
            let ro = if prog.iter().any(|p| p.kind == PKind::RoGet) { Some(open_readonly(&root, &[writer_spec(&l)], Checker::None)) } else { None };
            let body = std::panic::catch_unwind(std::panic::AssertUnwindSafe(|| {
                shim::yield_now("start");
                let mut held: Vec<(usize, KeySpec, std::fs::File)> = Vec::new();
                let mut local: Vec<HistEv> = Vec::new();
                for (i, p) in prog.iter().enumerate() {
                    shim::begin_op(i as u32);
                    shim::set_step_budget(budget);
                    shim::yield_now("call");
                    let call_seq = world.next_seq();
                    let (ret, val) = perform(&root, &l, &handle, &ro, tid, i, p, &mut held);
                    let steps = shim::op_steps();
                    let over = shim::budget_exceeded();
                    shim::set_step_budget(0);
                    let ret_seq = world.next_seq();
                    local.push(HistEv { tid, op: i, pop: p.clone(), call_seq, ret_seq, ret, val, steps, over_budget: over });
                }
                // handles held across the whole program are read now
                for (i, _ks, f) in held.drain(..) {
                    let got = inspect(f);
                    if let Some(h) = local.iter_mut().find(|h| h.op == i) {
                        h.ret = Ret::File(got);
                    }
                }
                local
            }));
            world.participant_done(tid);
            shim::leave_world();
            if let Ok(local) = body {
                hist.lock().unwrap().extend(local);
            }
        }));
    }
    for t in threads {
        let _ = t.join();
    }
    let events = world.take_events();
    let mut h = hist.lock().unwrap().clone();
    h.sort_by_key(|e| e.call_seq);
    let sched_steps = world.sched.lock().unwrap().steps;
    let me = monitor_err.lock().unwrap().clone();
    ExecOut { hist: h, events, picks: world.picks(), monitor_err: me, sched_steps }
}

pub fn clean(root: &Path) {
    shim::bypass(|| {
        if let Ok(rd) = std::fs::read_dir(root) {
            for e in rd.flatten() {
                let _ = std::fs::remove_dir_all(e.path());
            }
        }
    })
}

#[derive(Clone, Debug, Serialize, Deserialize)]
pub struct ConcCase {
    pub layout: Layout,
    pub progs: Vec<Vec<POp>>,
    pub strategy: Sched,
}

// ------------------------------------------------------------ generators

use proptest::prelude::*;

pub fn gen_layout(kinds: Vec<u8>, caps: Vec<usize>) -> impl Strategy<Value = Layout> {
    (prop::sample::select(kinds), 2u8..4, prop::sample::select(caps), any::<bool>(), prop::collection::vec(0u8..3, 0..3), prop::collection::vec(0u8..3, 0..3), prop::bool::weighted(0.25)).prop_map(|(kind, shards, capacity, shared_handle, pw, pr, dirs_missing)| Layout {
        kind,
        shards,
        capacity: if kind % 2 == 1 && capacity < 1 << 30 { capacity.max(1) * shards as usize } else { capacity },
        shared_handle,
        preload_writer: pw,
        preload_reader: if kind >= 2 { pr } else { vec![] },
        dirs_missing,
        checker: false,
        no_hard_links: false,
        stale_debris: false,
    })
}

pub fn gen_prog(kinds: Vec<PKind>, max_ops: usize, keys: u8) -> impl Strategy<Value = Vec<POp>> {
    prop::collection::vec((prop::sample::select(kinds), 0..keys, 0u8..5, prop::bool::weighted(0.3)), 1..=max_ops).prop_map(|v| v.into_iter().map(|(kind, key, size, hold)| POp { kind, key, size, hold }).collect())
}

/// All single-preemption schedules for `n` participants given how many steps each takes when run
/// first: for every order, preempt the first participant after 0..=steps[first] of its steps.
pub fn single_preemptions(n: usize, solo_steps: &[u32]) -> Vec<Sched> {
    fn perms(xs: &[usize]) -> Vec<Vec<usize>> {
        if xs.len() <= 1 {
            return vec![xs.to_vec()];
        }
        let mut out = Vec::new();
        for i in 0..xs.len() {
            let mut rest = xs.to_vec();
            let x = rest.remove(i);
            for mut p in perms(&rest) {
                p.insert(0, x);
                out.push(p);
            }
        }
        out
    }
    let mut v = Vec::new();
    for order in perms(&(0..n).collect::<Vec<_>>()) {
        let first = order[0];
        for at in 0..=solo_steps[first] {
            v.push(Sched::Preempt { order: order.clone(), at });
        }
    }
    v
}

/// All schedules in which one participant is preempted TWICE, each time by a different peer that
/// then runs to completion (three participants): for every assignment (victim, first peer, second
/// peer) and every pair of preemption points of the victim.
pub fn double_preemptions(solo_steps: &[u32]) -> Vec<Sched> {
    let mut v = Vec::new();
    if solo_steps.len() != 3 {
        return v;
    }
    for victim in 0..3usize {
        for first in 0..3usize {
            if first == victim {
                continue;
            }
            let second = 3 - victim - first;
            let total = solo_steps[victim].min(40);
            for a in 0..=total {
                for b in 1..=(total - a).min(12) {
                    v.push(Sched::Segments(vec![(victim as u8, a as u8), (first as u8, 255), (victim as u8, b as u8), (second as u8, 255), (victim as u8, 255)]));
                }
            }
        }
    }
    v
}

/// Steps each participant is granted when it runs first and alone until completion.
pub fn solo_steps(root: &Path, l: &Layout, progs: &[Vec<POp>], opts: RunOpts) -> Vec<u32> {
    let n = progs.len();
    let mut out = vec![0u32; n];
    for first in 0..n {
        let mut order: Vec<usize> = vec![first];
        order.extend((0..n).filter(|x| *x != first));
        prepare(root, l);
        let ex = run_conc(root, l, progs, &Sched::Preempt { order, at: u32::MAX }, opts);
        clean(root);
        // picks granted to `first` before anybody else ran
        out[first] = ex.picks.iter().take_while(|p| **p == first).count() as u32;
    }
    out
}
