//! C15 — read-only caches are never modified: the stack matrix plus generated histories.
use crate::common::*;
use crate::fe::*;
use crate::matrix;
use proptest::prelude::*;
use serde::{Deserialize, Serialize};
use serde_json::json;
use std::path::Path;

#[derive(Clone, Debug, Serialize, Deserialize)]
pub struct Hist {
    /// 0 none, 1 plain, 2 sharded
    pub writer: u8,
    /// per reader: (sharded?, exists?, preloaded key indexes)
    pub readers: Vec<(bool, bool, Vec<u8>)>,
    pub checker: bool,
    pub readonly_api: bool,
    /// (op index, key index, populate index)
    pub steps: Vec<(u8, u8, u8)>,
    pub fire: bool,
}

const NAMES: &[&str] = &["k0", "k1", "k2", "k3", "", ".hidden", "/abs", "\\back", "a/b", "..", "k0/", "nul\0"];
const OPS: &[OpKind] = &[OpKind::Get, OpKind::Touch, OpKind::Ensure, OpKind::GouAccept, OpKind::GouPromote, OpKind::GouReplace, OpKind::Set, OpKind::Put, OpKind::SetTemp, OpKind::PutTemp];

fn gen_hist() -> impl Strategy<Value = Hist> {
    (
        0u8..3,
        prop::collection::vec((any::<bool>(), prop::bool::weighted(0.85), prop::collection::vec(0u8..4, 0..4)), 1..3),
        any::<bool>(),
        prop::bool::weighted(0.2),
        prop::collection::vec((0u8..10, 0u8..12, 0u8..3), 1..40),
        any::<bool>(),
    )
        .prop_map(|(writer, readers, checker, readonly_api, steps, fire)| Hist { writer, readers, checker, readonly_api, steps, fire })
}

fn key_for(i: u8) -> KeySpec {
    let name = NAMES[i as usize % NAMES.len()];
    KeySpec::new(name, (i as u64 + 0x1111).wrapping_mul(0x9E3779B97F4A7C15), (i as u64 + 0x2222).wrapping_mul(0xC2B2AE3D27D4EB4F))
}

pub fn judge(root: &Path, h: &Hist) -> Result<bool, (String, String)> {
    let old = now_ns() - 86_400_000_000_000;
    let mut reader_specs = Vec::new();
    for (i, (sharded, exists, keys)) in h.readers.iter().enumerate() {
        let name = format!("R{}", i);
        let spec = if *sharded { DirSpec::Sharded { dir: name.clone(), shards: 3, cap: 0 } } else { DirSpec::Plain { dir: name.clone(), cap: 0 } };
        if *exists {
            crate::shim::bypass(|| std::fs::create_dir_all(root.join(&name)).unwrap());
            for k in keys {
                let ks = key_for(*k);
                let dirs = spec.candidate_dirs(root, &ks);
                // all keys share a value identity per key so that a byte-equality checker is satisfied
                let p = dirs[(*k as usize + i) % dirs.len()].join(&ks.name);
                plant_file(&p, &Val::new(&ks.name, 50, *k as u32, 17).encode(), 0o444);
                set_times_ns(&p, old - 120_000_000_000, old).unwrap();
            }
            // application data and temp debris inside the read-only directory must survive too
            plant_file(&root.join(&name).join(".kismet_temp").join("stale"), b"stale", 0o600);
            set_times_ns(&root.join(&name).join(".kismet_temp").join("stale"), old, old).unwrap();
        }
        reader_specs.push(spec);
    }
    let writer = match h.writer {
        1 => Some(DirSpec::Plain { dir: "W".into(), cap: 2 }),
        2 => Some(DirSpec::Sharded { dir: "W".into(), shards: 2, cap: 2 }),
        _ => None,
    };
    let spec = StackSpec { writer, readers: reader_specs.clone(), checker: if h.checker { Checker::ByteEq } else { Checker::None }, auto_sync: true };
    let before = snapshot(root);
    let world = trace_world(&[root]);
    let root_s = root.to_string_lossy().into_owned();
    let mut found_any = false;
    let mut result: Result<(), (String, String)> = Ok(());
    let (_r, ev) = traced(&world, || {
        let handle = if h.readonly_api { open_readonly(root, &spec.readers, spec.checker) } else { open_stack(root, &spec) };
        for (oi, ki, pi) in &h.steps {
            let mut kind = OPS[*oi as usize % OPS.len()];
            if h.readonly_api && !matches!(kind, OpKind::Get | OpKind::Touch) {
                kind = if oi % 2 == 0 { OpKind::Get } else { OpKind::Touch };
            }
            let ks = key_for(*ki);
            // populate reproduces the shared identity of the key (so hits compare equal), or fails
            let op = Op { kind, key: ks.clone(), val: Val::new(&ks.name, 50, *ki as u32, 17), pop: [Pop::Value, Pop::NotFound, Pop::Error][*pi as usize % 3], nosy: oi % 3 == 0 , link_from: None};
            script_rng(h.fire, *ki as u64);
            let _ = exec(root, &handle, &op);
        }
    });
    for (i, _) in h.readers.iter().enumerate() {
        let prefix = format!("{}/R{}", root_s, i);
        for e in ev.iter().filter(|e| e.path == prefix || e.path.starts_with(&format!("{}/", prefix)) || e.path2.starts_with(&format!("{}/", prefix))) {
            found_any = true;
            let mutating = match e.call {
                "open" => (e.arg as i32 & (libc::O_CREAT | libc::O_TRUNC)) != 0 || (e.arg as i32 & libc::O_TMPFILE) == libc::O_TMPFILE,
                "futimens" | "utimensat" => e.times.map(|t| t[1].1 != libc::UTIME_OMIT).unwrap_or(true),
                "mkdir" | "rename" | "link" | "unlink" | "rmdir" | "chmod" | "fchmod" | "write" | "ftruncate" | "symlink" | "copy_file_range" => true,
                _ => false,
            };
            if mutating && result.is_ok() {
                result = Err(("c15:mutating-call".into(), format!("mutating call on a read-only cache: {} (times {:?})", e.short(), e.times)));
            }
        }
    }
    let after = snapshot(root);
    if result.is_ok() {
        for (path, b) in before.iter().filter(|(p, _)| p.starts_with('R')) {
            match after.get(path) {
                None => {
                    result = Err(("c15:changed".into(), format!("{} disappeared from a read-only cache", path)));
                    break;
                }
                Some(a) => {
                    if a.kind != b.kind || a.hash != b.hash || a.mode != b.mode || a.mtime != b.mtime || a.ino != b.ino {
                        result = Err(("c15:changed".into(), format!("{} changed in a read-only cache", path)));
                        break;
                    }
                }
            }
        }
        for path in after.keys().filter(|p| p.starts_with('R')) {
            if !before.contains_key(path) && result.is_ok() {
                result = Err(("c15:created".into(), format!("{} was created inside (or as) a read-only cache directory", path)));
            }
        }
    }
    crate::shim::bypass(|| {
        if let Ok(rd) = std::fs::read_dir(root) {
            for e in rd.flatten() {
                let _ = std::fs::remove_dir_all(e.path());
            }
        }
    });
    result.map(|_| found_any)
}

pub fn replay(v: &serde_json::Value) -> Result<(), String> {
    if v.get("point").is_some() {
        return matrix::replay_point("C15", v);
    }
    let h: Hist = serde_json::from_value(v["history"].clone()).map_err(|e| e.to_string())?;
    drop_privileges();
    let scratch = Scratch::new("c15r");
    std::env::set_var("TMPDIR", scratch.p("TMP"));
    crate::shim::bypass(|| std::fs::create_dir_all(scratch.p("TMP")).unwrap());
    judge(&scratch.p("w"), &h).map(|_| ()).map_err(|(s, d)| format!("{}: {}", s, d))
}

pub fn run(ctx: &Ctx) -> Report {
    let mut rep = crate::cmatrix::run_c15_matrix(ctx);
    let scratch = Scratch::new("c15");
    std::env::set_var("TMPDIR", scratch.p("TMP"));
    crate::shim::bypass(|| std::fs::create_dir_all(scratch.p("TMP")).unwrap());
    let root = scratch.p("w");
    crate::shim::bypass(|| std::fs::create_dir_all(&root).unwrap());
    let cases = ctx.share(ctx.scale(40_000, 400_000)) as u32;
    let rep_cell = std::cell::RefCell::new(&mut rep);
    let found = prop_search(ctx, 15, cases, 600, &gen_hist(), |h, exploring| {
        let r = judge(&root, h);
        if exploring {
            let mut rep = rep_cell.borrow_mut();
            let nontrivial = matches!(r, Ok(true));
            rep.case(if nontrivial { Some(fnv(format!("{:?}", h).as_bytes())) } else { None });
            rep.label("history");
            if h.readers.iter().any(|r| !r.1) {
                rep.label("history:missing read-only directory");
            }
            if h.steps.iter().any(|s| s.1 >= 4) {
                rep.label("history:invalid names");
            }
            if rep.samples.len() < 5 && rep.evaluations % 301 == 7 {
                let s = json!({"history": h});
                rep.sample(s);
            }
        }
        r.map(|_| ()).map_err(|(s, d)| format!("{}|{}", s, d))
    });
    drop(rep_cell);
    if let Some((msg, h)) = found {
        let (sig, detail) = msg.split_once('|').map(|(a, b)| (a.to_string(), b.to_string())).unwrap_or(("c15".into(), msg.clone()));
        rep.violation(&sig, detail, json!({"history": h}));
    }
    rep.exhaustive = false;
    rep
}
