pub mod c08;
pub mod clockq;
pub mod common;
pub mod shim;
