pub mod c08;
pub mod clockq;
pub mod common;
pub mod shim;
pub mod shardoracle;
pub mod c12;
pub mod fe;
pub mod direxplain; pub mod c07;
