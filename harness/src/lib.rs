pub fn x(){}
