//! Self-test of the trusted base, run by the orchestrator before every check:
//! (1) a scripted sequence of std / filetime / tempfile calls must show up in the trace as the
//!     expected libc calls, in order; (2) the shim's descriptor table must agree with
//!     /proc/self/fd; (3) the import table of this very binary is compared with a frozen list, so
//!     that a toolchain that starts using an entry point the shim does not know (openat2,
//!     renameat2, ...) is noticed instead of silently escaping the trace; (4) fault injection,
//!     the virtual clock and timestamp truncation behave as documented.
use crate::common::*;
use crate::shim::{self, AtimePolicy, Emu, Fault, World, WorldCfg, INTERPOSED};
use std::io::{Read, Write};

/// Undefined dynamic symbols of the harness binary that are known and judged irrelevant to the
/// trace (memory, threads, process control, harness-only stat calls...). Anything outside this
/// list and outside `INTERPOSED` fails the audit.
const KNOWN_IMPORTS: &[&str] = &[
    "_ITM_deregisterTMCloneTable", "_ITM_registerTMCloneTable", "_Unwind_Backtrace", "_Unwind_DeleteException", "_Unwind_GetDataRelBase", "_Unwind_GetIP", "_Unwind_GetIPInfo",
    "_Unwind_GetLanguageSpecificData", "_Unwind_GetRegionStart", "_Unwind_GetTextRelBase", "_Unwind_RaiseException", "_Unwind_Resume", "_Unwind_SetGR", "_Unwind_SetIP", "__cxa_finalize",
    "__cxa_thread_atexit_impl", "__errno_location", "__gmon_start__", "__libc_start_main", "__register_atfork", "__tls_get_addr", "__xpg_strerror_r", "_exit", "abort", "bcmp", "calloc", "chdir",
    "chroot", "clock_nanosleep", "dirfd", "dl_iterate_phdr", "dlsym", "dup", "dup2", "environ", "execvp", "exit", "fdopendir", "fork", "free", "fstat", "fstat64", "fstatat", "fstatat64", "getauxval",
    "getcwd", "getenv", "geteuid", "getpid", "getrandom", "gettid", "gnu_get_libc_version", "ioctl", "kill", "lstat", "lstat64", "malloc", "memcmp", "memcpy", "memmove", "memset", "mmap64", "mprotect",
    "munmap", "pause", "pidfd_getpid", "pidfd_spawnp", "pipe2", "poll", "posix_memalign", "posix_spawn_file_actions_addchdir", "posix_spawn_file_actions_addchdir_np", "posix_spawn_file_actions_adddup2",
    "posix_spawn_file_actions_destroy", "posix_spawn_file_actions_init", "posix_spawnattr_destroy", "posix_spawnattr_init", "posix_spawnattr_setflags", "posix_spawnattr_setpgroup",
    "posix_spawnattr_setsigdefault", "posix_spawnp", "pthread_attr_destroy", "pthread_attr_getguardsize", "pthread_attr_getstack", "pthread_attr_init", "pthread_attr_setstacksize", "pthread_create",
    "pthread_detach", "pthread_getattr_np", "pthread_join", "pthread_key_create", "pthread_key_delete", "pthread_mutex_lock", "pthread_mutex_unlock", "pthread_self", "pthread_setname_np",
    "pthread_setspecific", "readlink", "realloc", "realpath", "recv", "recvmsg", "send", "sendmsg", "setegid", "setenv", "seteuid", "setgid", "setgroups", "setpgid", "setsid", "setuid", "sigaction",
    "sigaddset", "sigaltstack", "sigemptyset", "signal", "socketpair", "stat64", "strlen", "syscall", "sysconf", "umask", "waitid", "waitpid", "futimens", "nanosleep", "sched_yield", "pthread_cond_wait",
    "pthread_cond_signal", "pthread_cond_broadcast", "pthread_mutex_trylock", "pthread_mutex_init", "pthread_mutex_destroy", "pthread_cond_init", "pthread_cond_destroy", "pthread_sigmask", "strerror_r",
    "getuid", "getgid", "getegid", "fcntl", "isatty", "madvise", "mremap", "open", "read", "write", "close", "lseek", "__fxstat", "__xstat", "__lxstat", "pthread_condattr_init", "pthread_condattr_setclock",
    "pthread_condattr_destroy", "pthread_mutexattr_init", "pthread_mutexattr_settype", "pthread_mutexattr_destroy", "pthread_rwlock_rdlock", "pthread_rwlock_unlock", "pthread_rwlock_wrlock", "memrchr",
    "memchr", "strchr", "qsort", "secure_getenv", "sched_getaffinity", "getppid", "prctl", "accept4", "bind", "connect", "getpeername", "getsockname", "getsockopt", "listen", "setsockopt", "shutdown", "socket",
    "getaddrinfo", "freeaddrinfo", "gai_strerror", "clock_getres", "clock_gettime", "gettimeofday", "time", "localtime_r", "pread64", "pwrite64", "preadv", "pwritev", "readv", "fchown", "chown", "lchown",
    "posix_fallocate", "fallocate", "truncate", "truncate64", "mkdirat", "symlinkat", "readlinkat", "fchownat", "faccessat", "access", "getdents64", "rewinddir", "seekdir", "telldir", "statfs", "fstatfs",
    "statvfs", "fstatvfs", "sync", "syncfs", "sync_file_range", "copy_file_range",
];

/// entry points that would let a filesystem mutation escape the trace if something started using them
const MUST_NOT_IMPORT: &[&str] = &["openat2", "renameat2", "rename_at", "linkat2", "open_by_handle_at", "name_to_handle_at", "io_uring_setup", "io_submit", "creat", "creat64", "mknod", "mknodat", "mkfifo", "tmpfile", "tmpfile64", "mkstemp", "mkostemp", "futimes", "utimes", "utime", "lutimes", "futimesat", "fchmodat2", "pwritev2", "truncate", "truncate64", "pwrite64", "fallocate", "posix_fallocate", "mkdirat", "symlinkat", "lchown", "chown", "fchown"];

pub fn run() -> Result<Vec<String>, String> {
    let mut notes = Vec::new();
    let scratch = Scratch::new("selftest");
    let root = scratch.path.clone();
    // ---- (1) scripted sequence
    let world = trace_world(&[&root]);
    let before_fds = std::fs::read_dir("/proc/self/fd").map(|d| d.count()).unwrap_or(0);
    let (r, ev) = traced(&world, || -> std::io::Result<()> {
        let d = root.join("d");
        std::fs::create_dir(&d)?;
        let a = d.join("a");
        {
            let mut f = std::fs::File::create(&a)?;
            f.write_all(b"hello")?;
            f.sync_all()?;
        }
        {
            let mut f = std::fs::File::open(&a)?;
            let mut s = String::new();
            f.read_to_string(&mut s)?;
            let _ = f.metadata()?;
            filetime::set_file_handle_times(&f, Some(filetime::FileTime::from_unix_time(1, 0)), None)?;
        }
        let _ = std::fs::symlink_metadata(&a)?;
        let mut p = std::fs::metadata(&a)?.permissions();
        p.set_readonly(true);
        std::fs::set_permissions(&a, p)?;
        let b = d.join("b");
        std::fs::hard_link(&a, &b)?;
        std::fs::rename(&b, d.join("c"))?;
        std::fs::remove_file(d.join("c"))?;
        for e in std::fs::read_dir(&d)? {
            let _ = e?.metadata()?;
        }
        let mut t = tempfile::NamedTempFile::new_in(&d)?;
        std::io::copy(&mut std::fs::File::open(&a)?, t.as_file_mut())?;
        drop(t);
        Ok(())
    });
    r.map_err(|p| format!("scripted sequence panicked: {}", p))?.map_err(|e| format!("scripted sequence failed: {}", e))?;
    let calls: Vec<&str> = ev.iter().map(|e| e.call).collect();
    let expected = ["mkdir", "open", "write", "fsync", "close", "open", "read", "fstat", "futimens", "close", "stat", "stat", "chmod", "link", "rename", "unlink", "opendir", "readdir", "stat", "closedir", "open", "open", "copy_file_range", "close", "unlink"];
    let mut it = calls.iter();
    for want in expected {
        if !it.any(|c| *c == want) {
            return Err(format!("scripted sequence: expected call {:?} (in order) is missing from the trace {:?}", want, calls));
        }
    }
    // every event names a path under the root and carries an inode where it should
    if let Some(e) = ev.iter().find(|e| !e.path.starts_with(&*root.to_string_lossy())) {
        return Err(format!("event outside the world root: {}", e.short()));
    }
    if let Some(e) = ev.iter().find(|e| matches!(e.call, "rename" | "link" | "write" | "fsync") && e.ok() && e.ino == 0) {
        return Err(format!("event without inode identity: {}", e.short()));
    }
    // ---- (2) descriptor table
    if !world.open_fds().is_empty() {
        return Err(format!("descriptor table not empty after the sequence: {:?}", world.open_fds().iter().map(|x| x.1.path.clone()).collect::<Vec<_>>()));
    }
    let after_fds = std::fs::read_dir("/proc/self/fd").map(|d| d.count()).unwrap_or(0);
    if after_fds != before_fds {
        return Err(format!("/proc/self/fd went from {} to {} entries", before_fds, after_fds));
    }
    notes.push(format!("scripted sequence: {} events, all expected calls present in order", ev.len()));
    // ---- (3) import audit of this binary
    let exe = std::env::current_exe().map_err(|e| e.to_string())?;
    match std::process::Command::new("nm").args(["-D", "--undefined-only"]).arg(&exe).output() {
        Ok(o) if o.status.success() => {
            let text = String::from_utf8_lossy(&o.stdout);
            let mut unknown = Vec::new();
            for l in text.lines() {
                let sym = l.split_whitespace().last().unwrap_or("").split('@').next().unwrap_or("");
                if sym.is_empty() {
                    continue;
                }
                if MUST_NOT_IMPORT.contains(&sym) {
                    return Err(format!("the binary imports {} which the shim does not interpose: the trace may be incomplete", sym));
                }
                if !KNOWN_IMPORTS.contains(&sym) && !INTERPOSED.contains(&sym) {
                    unknown.push(sym.to_string());
                }
            }
            if !unknown.is_empty() {
                return Err(format!("unaudited libc imports (new toolchain?): {:?}", unknown));
            }
            // and every interposed entry point must be DEFINED by this binary
            let defined = std::process::Command::new("nm").args(["-D", "--defined-only"]).arg(&exe).output().map(|o| String::from_utf8_lossy(&o.stdout).to_string()).unwrap_or_default();
            for sym in ["open64", "statx", "rename", "linkat", "unlink", "futimens", "fsync", "chmod", "opendir", "readdir64", "copy_file_range", "clock_gettime"] {
                if !defined.lines().any(|l| l.split_whitespace().last() == Some(sym)) {
                    // static executables do not export; fall back to the behavioural test above
                    notes.push(format!("note: {} is not exported dynamically (behavioural test passed)", sym));
                    break;
                }
            }
            notes.push("import audit: no unknown filesystem entry point".into());
        }
        _ => notes.push("import audit skipped: nm not available (behavioural test passed)".into()),
    }
    // ---- (4) fault injection, virtual clock, truncation
    let f = root.join("x");
    std::fs::write(&f, b"x").map_err(|e| e.to_string())?;
    let (r, ev) = traced(&world, || {
        shim::begin_op(0);
        shim::set_fault(Fault::Inject(0, libc::EIO));
        let r = std::fs::File::open(&f);
        shim::set_fault(Fault::None);
        r.map(|_| ())
    });
    match r {
        Ok(Err(e)) if e.raw_os_error() == Some(libc::EIO) => {}
        other => return Err(format!("fault injection: expected EIO, got {:?}", other.map(|r| r.map_err(|e| e.to_string())))),
    }
    if !ev.iter().any(|e| e.injected) {
        return Err("fault injection left no injected event".into());
    }
    let t = 1_700_000_000_500_000_000i128;
    let w2 = World::new(WorldCfg { roots: vec![root.to_string_lossy().into_owned()], trace: true, emu: Some(Emu { policy: AtimePolicy::Noatime, gran_ns: 1_000_000_000 }), vclock: t, ..Default::default() });
    let (r, _) = traced(&w2, || {
        let now = filetime::FileTime::now();
        let ok_clock = now.unix_seconds() == 1_700_000_000 && now.nanoseconds() == 500_000_000;
        filetime::set_file_mtime(&f, now).unwrap();
        let m = filetime::FileTime::from_last_modification_time(&std::fs::metadata(&f).unwrap());
        (ok_clock, m.unix_seconds(), m.nanoseconds())
    });
    match r {
        Ok((true, 1_700_000_000, 0)) => {}
        other => return Err(format!("virtual clock / granularity emulation: got {:?}", other)),
    }
    notes.push("fault injection, virtual clock and 1 s truncation behave as documented".into());
    Ok(notes)
}
