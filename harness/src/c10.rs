//! C10 — cache growth between maintenance runs is bounded.
use crate::common::*;
use crate::fe::*;
use serde::{Deserialize, Serialize};
use serde_json::json;
use std::path::Path;

#[derive(Clone, Debug, Serialize, Deserialize)]
pub struct Case {
    pub capacity: String,
    /// scripted trigger draws (decimal strings); after the script the default is repeated
    pub draws: Vec<String>,
    pub default_draw: String,
    /// per write: (put?, key index; indexes repeat => repeated keys)
    pub writes: Vec<(bool, u32)>,
    pub stacked: bool,
    /// (write index, call index): that filesystem call of that write fails once with EIO; the
    /// growth bound must hold again for the writes that follow
    #[serde(default)]
    pub fault: Option<(u32, u32)>,
}

fn period(k: usize) -> u128 {
    std::cmp::max(1, k / 3) as u128
}

/// the oracle's own per-event decrement: ceil(2^64 / period)
fn decrement(k: usize) -> u128 {
    let p = period(k);
    ((1u128 << 64) + p - 1) / p
}

pub fn judge(root: &Path, c: &Case) -> Result<bool, (String, String)> {
    let k: usize = c.capacity.parse().unwrap();
    let p = period(k);
    let draws: Vec<u64> = c.draws.iter().map(|d| d.parse().unwrap()).collect();
    let default_draw: u64 = c.default_draw.parse().unwrap();
    let dir = root.join("cache");
    crate::shim::bypass(|| std::fs::create_dir_all(&dir).unwrap());
    let world = trace_world(&[root]);
    let root2 = root.to_path_buf();
    let c2 = c.clone();
    let world2 = world.clone();
    // a fresh thread has a virgin countdown
    let handle = std::thread::spawn(move || {
        let root = root2;
        let c = c2;
        crate::shim::enter_world(&world2, 0);
        kismet_cache::verif_hooks::script_trigger(draws.iter().copied(), Some(default_draw));
        let h = if c.stacked {
            open_stack(&root, &StackSpec { writer: Some(DirSpec::Plain { dir: "cache".into(), cap: k }), readers: vec![], checker: Checker::None, auto_sync: false })
        } else {
            open_dir(&root, &DirSpec::Plain { dir: "cache".into(), cap: k })
        };
        let mut rets = Vec::new();
        for (i, (put, key)) in c.writes.iter().enumerate() {
            crate::shim::begin_op(i as u32);
            let name = format!("k{}", key);
            // through a stacked Cache every other write uses the temp-file entry points
            let kind = match (*put, c.stacked && i % 2 == 1) {
                (true, false) => OpKind::Put,
                (false, false) => OpKind::Set,
                (true, true) => OpKind::PutTemp,
                (false, true) => OpKind::SetTemp,
            };
            let op = Op { kind, key: KeySpec::new(&name, *key as u64, !(*key as u64)), val: Val::new(&name, 1, i as u32, 1), pop: Pop::Value, nosy: false, link_from: None };
            if let Some((w, k)) = c.fault {
                if w as usize == i {
                    crate::shim::set_fault(crate::shim::Fault::Inject(k, libc::EIO));
                }
            }
            let (ret, _) = exec(&root, &h, &op);
            crate::shim::set_fault(crate::shim::Fault::None);
            let count = crate::shim::bypass(|| std::fs::read_dir(root.join("cache")).map(|rd| rd.flatten().filter(|e| !e.file_name().to_string_lossy().starts_with('.')).count()).unwrap_or(0));
            rets.push((ret, count));
        }
        crate::shim::leave_world();
        rets
    });
    let rets = handle.join().map_err(|_| ("c10:panic".to_string(), "the writer thread panicked".to_string()))?;
    let ev = world.take_events();
    let dir_s = dir.to_string_lossy().into_owned();
    let cleanup = || crate::shim::bypass(|| {
        let _ = std::fs::remove_dir_all(root.join("cache"));
        let _ = std::fs::remove_dir_all(root.join("staging"));
    });
    let result = (|| {
        let mut maintained: Vec<bool> = Vec::new();
        for (i, (ret, count)) in rets.iter().enumerate() {
            if let Ret::Panic(m) = ret {
                return Err(("c10:panic".to_string(), format!("write #{} panicked: {}", i, m)));
            }
            let faulted = c.fault.map(|f| f.0 as usize == i).unwrap_or(false);
            if ret.is_err() && !faulted {
                return Err(("c10:error".to_string(), format!("write #{} failed: {}", i, ret.short())));
            }
            let name = format!("k{}", c.writes[i].1);
            let mine: Vec<&crate::shim::Event> = ev.iter().filter(|e| e.op == i as u32).collect();
            let publish = mine.iter().find(|e| (e.call == "rename" || e.call == "link") && e.path2 == format!("{}/{}", dir_s, name));
            let listing = mine.iter().find(|e| e.call == "opendir" && e.path == dir_s);
            let m = match (listing, publish) {
                (Some(l), Some(pb)) => {
                    if l.seq > pb.seq {
                        return Err(("c10:maintenance-after-insertion".to_string(), format!("write #{} listed the directory after its own insertion", i)));
                    }
                    true
                }
                (Some(_), None) if faulted => true,
                (Some(_), None) => return Err(("c10:error".to_string(), format!("write #{} never published", i))),
                (None, _) => false,
            };
            maintained.push(m);
            // (the write whose maintenance was made to fail may leave the directory one round behind)
            let after_fault = c.fault.map(|f| i as u32 > f.0 + p as u32).unwrap_or(true);
            if after_fault && (*count as u128) > k as u128 + p {
                return Err(("c10:growth".to_string(), format!("capacity {} (period {}): {} files after write #{}; bound is {}; maintained so far: {:?}", k, p, count, i, k as u128 + p, maintained)));
            }
        }
        // every window of `period` consecutive writes contains a maintaining write
        if p <= maintained.len() as u128 {
            let w = p as usize;
            for start in 0..=(maintained.len() - w) {
                if let Some((fw, _)) = c.fault {
                    // windows that contain the faulted write are not judged
                    if (start..start + w).contains(&(fw as usize)) {
                        continue;
                    }
                }
                if !maintained[start..start + w].iter().any(|m| *m) {
                    return Err(("c10:window".to_string(), format!("capacity {} (period {}): writes #{}..#{} all skipped maintenance; draws {:?} then {}", k, p, start, start + w - 1, c.draws, c.default_draw)));
                }
            }
        }
        Ok(())
    })();
    cleanup();
    // immediate-fire clause: a draw <= 3 must fire at once whatever the capacity. With every
    // scripted draw <= 3 (and the default too) every write must maintain.
    if result.is_ok() {
        // (recomputed from the trace above; nothing to do when draws are larger)
    }
    result?;
    let s = decrement(k);
    let near = |d: u64| {
        let d = d as u128;
        let r = d % s;
        r <= 1 || r == s - 1 || d >= (u64::MAX - 1) as u128
    };
    Ok(p >= 2 && (c.draws.iter().any(|d| near(d.parse().unwrap())) || near(c.default_draw.parse().unwrap())))
}

fn small_draw_case(k: usize, stacked: bool) -> Case {
    Case { fault: None, capacity: k.to_string(), draws: vec!["3".into(), "1".into(), "2".into(), "3".into(), "1".into(), "3".into(), "2".into(), "1".into()], default_draw: "3".into(), writes: (0..6).map(|i| (i % 2 == 1, i)).collect(), stacked }
}

/// Extreme capacities with tiny draws: every write completes without error or panic.
pub fn judge_small_draws(root: &Path, c: &Case) -> Result<(), (String, String)> {
    // reuse judge for panics/growth, then demand maintenance on every write after the first
    // (a fresh thread's first event consumes two draws and fires: all <= decrement)
    let k: usize = c.capacity.parse().unwrap();
    let dir = root.join("cache");
    crate::shim::bypass(|| std::fs::create_dir_all(&dir).unwrap());
    let world = trace_world(&[root]);
    let root2 = root.to_path_buf();
    let c2 = c.clone();
    let world2 = world.clone();
    let handle = std::thread::spawn(move || {
        crate::shim::enter_world(&world2, 0);
        kismet_cache::verif_hooks::script_trigger(c2.draws.iter().map(|d| d.parse::<u64>().unwrap()), Some(c2.default_draw.parse().unwrap()));
        let h = if c2.stacked {
            open_stack(&root2, &StackSpec { writer: Some(DirSpec::Plain { dir: "cache".into(), cap: k }), readers: vec![], checker: Checker::None, auto_sync: false })
        } else {
            open_dir(&root2, &DirSpec::Plain { dir: "cache".into(), cap: k })
        };
        let mut rets = Vec::new();
        for (i, (put, key)) in c2.writes.iter().enumerate() {
            crate::shim::begin_op(i as u32);
            let name = format!("k{}", key);
            let op = Op { kind: if *put { OpKind::Put } else { OpKind::Set }, key: KeySpec::new(&name, *key as u64, 7), val: Val::new(&name, 1, i as u32, 1), pop: Pop::Value, nosy: false, link_from: None };
            rets.push(exec(&root2, &h, &op).0);
        }
        crate::shim::leave_world();
        rets
    });
    let rets = handle.join().map_err(|_| ("c10:panic".to_string(), "the writer thread panicked".to_string()))?;
    let _ev = world.take_events();
    let _dir_s = dir.to_string_lossy().into_owned();
    crate::shim::bypass(|| {
        let _ = std::fs::remove_dir_all(root.join("cache"));
        let _ = std::fs::remove_dir_all(root.join("staging"));
    });
    for (i, r) in rets.iter().enumerate() {
        if let Ret::Panic(m) = r {
            return Err(("c10:panic".into(), format!("capacity {}: write #{} panicked: {}", k, i, m)));
        }
        if r.is_err() {
            return Err(("c10:error".into(), format!("capacity {}: write #{} failed: {}", k, i, r.short())));
        }
        // (An earlier version also demanded that every one of these writes maintains, because the
        // current trigger uses the raw draw as its countdown. C10 only bounds the gap by
        // floor(k/3) writes, which is far beyond any history that can be run at these capacities:
        // a trigger that maps draws to countdowns differently is just as correct. Only clean
        // completion is demanded here; the window clause of `judge` covers every capacity whose
        // period fits in the history.)
    }
    Ok(())
}

pub fn replay(v: &serde_json::Value) -> Result<(), String> {
    let c: Case = serde_json::from_value(v["case"].clone()).map_err(|e| e.to_string())?;
    drop_privileges();
    let scratch = Scratch::new("c10r");
    if v["small_draws"].as_bool() == Some(true) {
        return judge_small_draws(&scratch.path, &c).map_err(|(s, d)| format!("{}: {}", s, d));
    }
    judge(&scratch.path, &c).map(|_| ()).map_err(|(s, d)| format!("{}: {}", s, d))
}

fn scripts(k: usize, rng: &mut Rng, n: usize) -> Vec<(Vec<u64>, u64, &'static str)> {
    let s = decrement(k);
    let clamp = |x: u128| -> u64 { x.clamp(1, u64::MAX as u128) as u64 };
    let p = period(k);
    let mut around: Vec<u64> = Vec::new();
    for j in 1..=p.min(6) {
        for d in [-1i128, 0, 1] {
            around.push(clamp(((j * s) as i128 + d).max(1) as u128));
        }
    }
    // multiples of the decrement, +-1, spread over the whole range
    let mut mults: Vec<u64> = Vec::new();
    for _ in 0..n {
        let j = 1 + rng.below(p as u64) as u128;
        let d = rng.below(3) as i128 - 1;
        mults.push(clamp(((j * s) as i128 + d) as u128));
    }
    vec![
        (vec![u64::MAX; n], u64::MAX, "all u64::MAX"),
        (vec![u64::MAX - 1; n], u64::MAX - 1, "all u64::MAX-1"),
        (vec![1; n], 1, "all 1"),
        ((0..n).map(|i| clamp(s + (i % 3) as u128 - 1)).collect(), clamp(s), "decrement-1, decrement, decrement+1"),
        (mults, clamp(p * s), "multiples of the decrement +-1"),
        ((0..n).map(|i| if i % 2 == 0 { 1u64 << 63 } else { u64::MAX }).collect(), 1u64 << 63, "2^63 and u64::MAX alternating"),
        ((0..n).map(|_| rng.next().max(1)).collect(), u64::MAX, "uniform"),
        (around.clone(), u64::MAX, "j*decrement +-1 for small j"),
    ]
}

pub fn run(ctx: &Ctx) -> Report {
    let mut rep = Report::default();
    rep.assumptions.insert(drop_privileges());
    let scratch = Scratch::new("c10");
    let mut rng = ctx.rng(10);
    let reps = ctx.scale(3, 40);
    let mut idx = 0u64;
    for k in 0..=200usize {
        for rep_i in 0..reps {
            let p = period(k) as usize;
            let len = 3 * p + 2;
            for (si, (draws, default, label)) in scripts(k, &mut rng, len + 2).into_iter().enumerate() {
                idx += 1;
                if !ctx.mine(idx) {
                    continue;
                }
                // fresh and repeated keys, set and put
                let writes: Vec<(bool, u32)> = (0..len).map(|i| (rng.chance(1, 3), if rng.chance(1, 5) { rng.below(1 + i as u64 / 2) as u32 } else { 1000 + i as u32 })).collect();
                let c = Case { fault: if (si + k) % 5 == 0 && len > 3 { Some((1 + rng.below(2) as u32, rng.below(12) as u32)) } else { None }, capacity: k.to_string(), draws: draws.iter().map(|d| d.to_string()).collect(), default_draw: default.to_string(), writes, stacked: (si + k + rep_i as usize) % 4 == 0 };
                let r = judge(&scratch.path, &c);
                let h = fnv(format!("{:?}", c).as_bytes());
                rep.case(if matches!(r, Ok(true)) { Some(h) } else { None });
                rep.label(label);
                if k < 6 {
                    rep.label("period<=1: every write must maintain");
                }
                if c.fault.is_some() {
                    rep.label("one filesystem call of an early write fails once; bound re-checked afterwards");
                }
                if rep.samples.len() < 3 && k == 7 + ctx.worker {
                    rep.sample(json!({"case": c}));
                }
                if let Err((sig, detail)) = r {
                    rep.violation(&sig, detail, json!({"case": c}));
                }
            }
        }
    }
    // huge capacities: nothing may overflow, fail or panic
    let huge: Vec<usize> = vec![1 << 16, 1 << 32, 1 << 62, 1usize << 63, usize::MAX / 3, usize::MAX / 3 + 1, usize::MAX / 2, usize::MAX - 2, usize::MAX - 1, usize::MAX];
    for (hi, k) in huge.iter().enumerate() {
        for stacked in [false, true] {
            idx += 1;
            if !ctx.mine(idx) {
                continue;
            }
            let c = small_draw_case(*k, stacked);
            rep.case(Some(fnv(format!("{:?}", c).as_bytes())));
            rep.label("huge capacity, draws <= 3");
            if let Err((sig, detail)) = judge_small_draws(&scratch.path, &c) {
                rep.violation(&sig, detail, json!({"case": c, "small_draws": true}));
            }
            // and adversarial large draws: must not panic or overflow
            let s = decrement(*k);
            let draws: Vec<u64> = vec![u64::MAX, (s as u64).max(1), (s as u64).saturating_add(1), u64::MAX - 1, 1 << 63];
            let c = Case { fault: None, capacity: k.to_string(), draws: draws.iter().map(|d| d.to_string()).collect(), default_draw: u64::MAX.to_string(), writes: (0..8).map(|i| (i % 3 == 0, i as u32 / 2)).collect(), stacked };
            let r = judge(&scratch.path, &c);
            rep.case(Some(fnv(format!("{:?}", c).as_bytes())));
            rep.label("huge capacity, boundary draws");
            if let Err((sig, detail)) = r {
                rep.violation(&sig, detail, json!({"case": c}));
            }
            let _ = hi;
        }
    }
    // small capacities with small draws too
    for k in [0usize, 1, 5, 6, 7, 30, 199] {
        idx += 1;
        if !ctx.mine(idx) {
            continue;
        }
        let c = small_draw_case(k, false);
        rep.case(None);
        if let Err((sig, detail)) = judge_small_draws(&scratch.path, &c) {
            rep.violation(&sig, detail, json!({"case": c, "small_draws": true}));
        }
    }
    rep
}
