//! Independent reimplementation of the documented shard mapping (own SHA-256).
const K: [u32; 64] = [
    0x428a2f98, 0x71374491, 0xb5c0fbcf, 0xe9b5dba5, 0x3956c25b, 0x59f111f1, 0x923f82a4, 0xab1c5ed5, 0xd807aa98, 0x12835b01, 0x243185be, 0x550c7dc3, 0x72be5d74, 0x80deb1fe,
    0x9bdc06a7, 0xc19bf174, 0xe49b69c1, 0xefbe4786, 0x0fc19dc6, 0x240ca1cc, 0x2de92c6f, 0x4a7484aa, 0x5cb0a9dc, 0x76f988da, 0x983e5152, 0xa831c66d, 0xb00327c8, 0xbf597fc7,
    0xc6e00bf3, 0xd5a79147, 0x06ca6351, 0x14292967, 0x27b70a85, 0x2e1b2138, 0x4d2c6dfc, 0x53380d13, 0x650a7354, 0x766a0abb, 0x81c2c92e, 0x92722c85, 0xa2bfe8a1, 0xa81a664b,
    0xc24b8b70, 0xc76c51a3, 0xd192e819, 0xd6990624, 0xf40e3585, 0x106aa070, 0x19a4c116, 0x1e376c08, 0x2748774c, 0x34b0bcb5, 0x391c0cb3, 0x4ed8aa4a, 0x5b9cca4f, 0x682e6ff3,
    0x748f82ee, 0x78a5636f, 0x84c87814, 0x8cc70208, 0x90befffa, 0xa4506ceb, 0xbef9a3f7, 0xc67178f2,
];

pub fn sha256(msg: &[u8]) -> [u8; 32] {
    let mut h: [u32; 8] = [0x6a09e667, 0xbb67ae85, 0x3c6ef372, 0xa54ff53a, 0x510e527f, 0x9b05688c, 0x1f83d9ab, 0x5be0cd19];
    let mut data = msg.to_vec();
    let bitlen = (msg.len() as u64) * 8;
    data.push(0x80);
    while data.len() % 64 != 56 {
        data.push(0);
    }
    data.extend_from_slice(&bitlen.to_be_bytes());
    for chunk in data.chunks(64) {
        let mut w = [0u32; 64];
        for i in 0..16 {
            w[i] = u32::from_be_bytes([chunk[4 * i], chunk[4 * i + 1], chunk[4 * i + 2], chunk[4 * i + 3]]);
        }
        for i in 16..64 {
            let s0 = w[i - 15].rotate_right(7) ^ w[i - 15].rotate_right(18) ^ (w[i - 15] >> 3);
            let s1 = w[i - 2].rotate_right(17) ^ w[i - 2].rotate_right(19) ^ (w[i - 2] >> 10);
            w[i] = w[i - 16].wrapping_add(s0).wrapping_add(w[i - 7]).wrapping_add(s1);
        }
        let mut v = h;
        for i in 0..64 {
            let s1 = v[4].rotate_right(6) ^ v[4].rotate_right(11) ^ v[4].rotate_right(25);
            let ch = (v[4] & v[5]) ^ (!v[4] & v[6]);
            let t1 = v[7].wrapping_add(s1).wrapping_add(ch).wrapping_add(K[i]).wrapping_add(w[i]);
            let s0 = v[0].rotate_right(2) ^ v[0].rotate_right(13) ^ v[0].rotate_right(22);
            let maj = (v[0] & v[1]) ^ (v[0] & v[2]) ^ (v[1] & v[2]);
            let t2 = s0.wrapping_add(maj);
            v[7] = v[6];
            v[6] = v[5];
            v[5] = v[4];
            v[4] = v[3].wrapping_add(t1);
            v[3] = v[2];
            v[2] = v[1];
            v[1] = v[0];
            v[0] = t1.wrapping_add(t2);
        }
        for i in 0..8 {
            h[i] = h[i].wrapping_add(v[i]);
        }
    }
    let mut out = [0u8; 32];
    for i in 0..8 {
        out[4 * i..4 * i + 4].copy_from_slice(&h[i].to_be_bytes());
    }
    out
}

#[derive(Clone, Copy, Debug)]
pub struct Mixer {
    pub mul: u64,
    pub add: u64,
}

impl Mixer {
    pub fn keyed(key: &[u8]) -> Mixer {
        let h = sha256(key);
        let mut m = [0u8; 8];
        let mut a = [0u8; 8];
        m.copy_from_slice(&h[0..8]);
        a.copy_from_slice(&h[8..16]);
        Mixer { mul: u64::from_le_bytes(m) | 1, add: u64::from_le_bytes(a) }
    }
    pub fn mix(&self, x: u64) -> u64 {
        x.wrapping_mul(self.mul).wrapping_add(self.add)
    }
    /// the x with mix(x) == y (the multiplier is odd, hence invertible mod 2^64)
    pub fn unmix(&self, y: u64) -> u64 {
        let mut inv: u64 = self.mul; // Newton: correct to 3 bits, doubles each round
        for _ in 0..6 {
            inv = inv.wrapping_mul(2u64.wrapping_sub(self.mul.wrapping_mul(inv)));
        }
        y.wrapping_sub(self.add).wrapping_mul(inv)
    }
}

pub fn primary() -> Mixer {
    Mixer::keyed(b"kismet: primary shard mixer")
}
pub fn secondary() -> Mixer {
    Mixer::keyed(b"kismet: secondary shard mixer")
}

pub fn scale(x: u64, n: u64) -> u64 {
    ((n as u128 * x as u128) >> 64) as u64
}

/// (primary shard, secondary shard) for the two hashes and a shard count (fewer than 2 behaves as 2).
pub fn shards(hash: u64, secondary_hash: u64, n: usize) -> (u64, u64) {
    let n = (n.max(2)) as u64;
    let h1 = scale(primary().mix(hash), n);
    let mut h2 = scale(secondary().mix(secondary_hash), n);
    if h2 == h1 {
        h2 = (h2 + 1) % n;
    }
    (h1, h2)
}

pub fn dir_name(shard: u64) -> String {
    format!(".kismet_{:04x}", shard)
}

/// smallest mixed value that scales to shard j of n
pub fn boundary(j: u64, n: u64) -> u64 {
    // ceil(j * 2^64 / n)
    let num = (j as u128) << 64;
    ((num + n as u128 - 1) / n as u128) as u64
}

#[cfg(test)]
mod t {
    #[test]
    fn sha_abc() {
        let h = super::sha256(b"abc");
        assert_eq!(&h[..4], &[0xba, 0x78, 0x16, 0xbf]);
        let h = super::sha256(b"");
        assert_eq!(&h[..4], &[0xe3, 0xb0, 0xc4, 0x42]);
    }
    #[test]
    fn unmix() {
        let m = super::primary();
        for x in [0u64, 1, 42, u64::MAX, 1 << 63] {
            assert_eq!(m.unmix(m.mix(x)), x);
        }
    }
}
