//! C16 — keys are validated and confined to the cache directory.
use crate::common::*;
use crate::fe::*;
use crate::shim::Event;
use proptest::prelude::*;
use serde::{Deserialize, Serialize};
use serde_json::json;
use std::path::Path;

#[derive(Clone, Debug, Serialize, Deserialize)]
pub struct Case {
    pub name: String,
    pub op: OpKind,
    /// 0 plain, 1 sharded(3), 2 stack plain writer + plain reader, 3 stack sharded writer + sharded reader,
    /// 4 stack without writer + plain reader, 5 read-only stack, 6 sharded with 2^17 shards (5-digit shard ids)
    pub fe: u8,
    pub small_capacity: bool,
}

fn segment() -> impl Strategy<Value = String> {
    prop_oneof![
        4 => "[a-zA-Z0-9_-]{1,6}",
        2 => Just(".".to_string()),
        3 => Just("..".to_string()),
        1 => Just("".to_string()),
        1 => Just("ключ".to_string()),
        1 => Just("鍵\u{301}".to_string()),
        1 => Just("x".repeat(255)),
        1 => Just("y".repeat(256)),
        2 => Just(".kismet_temp".to_string()),
        1 => Just(".kismet_0000".to_string()),
        2 => Just("sub".to_string()),
        2 => Just("existing".to_string()),
        1 => Just("inner".to_string()),
        1 => Just("outside".to_string()),
        1 => Just("sibling_cache".to_string()),
        1 => Just("a\\b".to_string()),
        1 => Just("nul\0byte".to_string()),
        1 => Just(".appdata".to_string()),
        1 => Just("old".to_string()),
        1 => Just(" ".to_string()),
        1 => Just("-rf".to_string()),
    ]
}

pub fn gen_name() -> impl Strategy<Value = String> {
    (prop::collection::vec(segment(), 1..5), 0u8..8, 0u8..6).prop_map(|(segs, pre, suf)| {
        let mut s = segs.join("/");
        match pre {
            0 => s.insert(0, '.'),
            1 => s.insert(0, '/'),
            2 => s.insert(0, '\\'),
            _ => {}
        }
        match suf {
            0 => s.push('/'),
            1 => s.push_str("/."),
            2 => s.push_str("/.."),
            _ => {}
        }
        s
    })
}

fn gen_case() -> impl Strategy<Value = Case> {
    let ops = prop::sample::select(vec![
        OpKind::Get, OpKind::Touch, OpKind::Set, OpKind::Put, OpKind::SetTemp, OpKind::PutTemp, OpKind::Ensure, OpKind::GouAccept, OpKind::GouPromote, OpKind::GouReplace,
    ]);
    (gen_name(), ops, 0u8..7, any::<bool>()).prop_map(|(name, op, fe, small)| {
        // plain/sharded/read-only handles only have the four basic operations
        let (op, fe) = match fe {
            0 | 1 if !op.is_plain_api() => (op, 2 + (fe % 2)),
            6 if !op.is_plain_api() => (op, 3),
            5 if !matches!(op, OpKind::Get | OpKind::Touch) => (op, 4),
            _ => (op, fe),
        };
        Case { name, op, fe, small_capacity: small }
    })
}

pub fn is_reserved(name: &str) -> bool {
    matches!(name.as_bytes().first(), None | Some(b'.') | Some(b'/') | Some(b'\\'))
}

struct Layout {
    cache_spec: Option<DirSpec>,
    ro_spec: Option<DirSpec>,
}

fn layout(c: &Case) -> Layout {
    let cap = if c.small_capacity { 1 } else { 1 << 30 };
    match c.fe {
        0 => Layout { cache_spec: Some(DirSpec::Plain { dir: "cache".into(), cap }), ro_spec: None },
        1 => Layout { cache_spec: Some(DirSpec::Sharded { dir: "cache".into(), shards: 3, cap: cap.max(3) }), ro_spec: None },
        2 => Layout { cache_spec: Some(DirSpec::Plain { dir: "cache".into(), cap }), ro_spec: Some(DirSpec::Plain { dir: "ro".into(), cap: 0 }) },
        3 => Layout { cache_spec: Some(DirSpec::Sharded { dir: "cache".into(), shards: 3, cap: cap.max(3) }), ro_spec: Some(DirSpec::Sharded { dir: "ro".into(), shards: 3, cap: 0 }) },
        6 => Layout { cache_spec: Some(DirSpec::Sharded { dir: "cache".into(), shards: 1 << 17, cap: if c.small_capacity { 1 << 17 } else { 1 << 40 } }), ro_spec: None },
        _ => Layout { cache_spec: None, ro_spec: Some(DirSpec::Plain { dir: "ro".into(), cap: 0 }) },
    }
}

fn is_mutation(e: &Event) -> bool {
    match e.call {
        // an open mutates only if it can create or truncate; writes through the descriptor are events of their own
        "open" => (e.arg as i32 & (libc::O_CREAT | libc::O_TRUNC)) != 0 || (e.arg as i32 & libc::O_TMPFILE) == libc::O_TMPFILE,
        "mkdir" | "rename" | "link" | "unlink" | "rmdir" | "chmod" | "fchmod" | "futimens" | "utimensat" | "write" | "ftruncate" | "symlink" | "copy_file_range" => true,
        _ => false,
    }
}

pub fn judge(root: &Path, c: &Case) -> Result<(), (String, String)> {
    let lay = layout(c);
    let t0 = now_ns();
    let old = t0 - 2 * 3_600_000_000_000;
    let key = KeySpec::new(&c.name, 0x0123_4567_89ab_cdef, 0xfedc_ba98_7654_3210);
    // the sentinel tree
    plant_file(&root.join("outside"), b"outside sentinel", 0o644);
    for n in ["existing", "k1", "outside", "zz"] {
        plant_file(&root.join("sibling_cache").join(n), format!("sibling {}", n).as_bytes(), 0o444);
    }
    crate::shim::bypass(|| std::fs::create_dir_all(root.join("TMP")).unwrap());
    let mut cache_dirs: Vec<std::path::PathBuf> = Vec::new();
    let populate = |dir: &Path| {
        for (i, n) in ["existing", "other1", "other2"].iter().enumerate() {
            let p = dir.join(n);
            plant_file(&p, &Val::new(n, 0, i as u32, 17).encode(), 0o444);
            set_times_ns(&p, old - 200_000_000_000 + i as i128, old + i as i128).unwrap();
        }
        plant_file(&dir.join(".appdata"), b"application data", 0o644);
        set_times_ns(&dir.join(".appdata"), old, old).unwrap();
        plant_file(&dir.join("sub").join("inner"), b"nested sentinel", 0o444);
        set_times_ns(&dir.join("sub").join("inner"), old - 200_000_000_000, old).unwrap();
        plant_file(&dir.join(".kismet_temp").join("old"), b"stale temp", 0o600);
        set_times_ns(&dir.join(".kismet_temp").join("old"), old, old).unwrap();
        plant_file(&dir.join(".kismet_temp").join("zz"), b"young temp", 0o600);
    };
    for spec in lay.cache_spec.iter().chain(lay.ro_spec.iter()) {
        match spec {
            DirSpec::Plain { dir, .. } => {
                populate(&root.join(dir));
                if Some(spec) == lay.cache_spec.as_ref() {
                    cache_dirs.push(root.join(dir));
                }
            }
            DirSpec::Sharded { dir, shards, .. } => {
                // application data may also sit at the top of a sharded cache directory
                plant_file(&root.join(dir).join(".appdata"), b"application data", 0o644);
                plant_file(&root.join(dir).join("sub").join("inner"), b"nested sentinel", 0o444);
                // (with very many shards only the key's two candidate shards are populated)
                let shard_ids: Vec<u64> = if *shards > 64 {
                    let (a, b) = crate::shardoracle::shards(key.hash, key.sec, *shards);
                    vec![a, b]
                } else {
                    (0..*shards as u64).collect()
                };
                for s in shard_ids {
                    let d = root.join(dir).join(crate::shardoracle::dir_name(s));
                    populate(&d);
                    if Some(spec) == lay.cache_spec.as_ref() {
                        cache_dirs.push(d);
                    }
                }
            }
        }
    }
    let before = snapshot(root);
    let world = trace_world(&[root]);
    let op = Op { kind: c.op, key: key.clone(), val: Val::new("payload", 3, 3, 17), pop: Pop::Value, nosy: false , link_from: None};
    let (res, ev) = traced(&world, || {
        script_rng(true, 1);
        let h = match c.fe {
            0 | 1 | 6 => open_dir(root, lay.cache_spec.as_ref().unwrap()),
            5 => open_readonly(root, &[lay.ro_spec.clone().unwrap()], Checker::None),
            _ => open_stack(root, &StackSpec { writer: lay.cache_spec.clone(), readers: lay.ro_spec.iter().cloned().collect(), checker: Checker::None, auto_sync: true }),
        };
        exec(root, &h, &op)
    });
    let after = snapshot(root);
    let cleanup = || {
        crate::shim::bypass(|| {
            if let Ok(rd) = std::fs::read_dir(root) {
                for e in rd.flatten() {
                    let _ = std::fs::remove_dir_all(e.path());
                    let _ = std::fs::remove_file(e.path());
                }
            }
        })
    };
    let result = (|| -> Result<(), (String, String)> {
        let (ret, _side) = match res {
            Ok(r) => r,
            Err(p) => return Err(("c16:panic".into(), p)),
        };
        if let Ret::Panic(p) = &ret {
            return Err(("c16:panic".into(), p.clone()));
        }
        let root_s = root.to_string_lossy().into_owned();
        let rel = |p: &str| p.strip_prefix(&format!("{}/", root_s)).unwrap_or(p).to_string();
        let diff = || -> Vec<String> {
            let mut d = Vec::new();
            for (p, e) in &before {
                if p.starts_with("staging") || p.starts_with("TMP") {
                    continue;
                }
                match after.get(p) {
                    None => d.push(format!("{} removed", p)),
                    Some(a) => {
                        if a.kind != e.kind || a.hash != e.hash || a.mode != e.mode || a.mtime != e.mtime || a.ino != e.ino {
                            d.push(format!("{} changed", p));
                        }
                    }
                }
            }
            for p in after.keys() {
                if !before.contains_key(p) && !p.starts_with("staging") && !p.starts_with("TMP") {
                    d.push(format!("{} created", p));
                }
            }
            d
        };
        let invalid_input = matches!(&ret, Ret::Err(e) if e.kind == "InvalidInput");
        // documented precedence: without a write cache every write fails as Unsupported, whatever the name
        let unsupported_write = lay.cache_spec.is_none() && matches!(c.op, OpKind::Set | OpKind::Put | OpKind::SetTemp | OpKind::PutTemp) && matches!(&ret, Ret::Err(e) if e.kind == "Unsupported");
        if is_reserved(&c.name) {
            if !invalid_input && !unsupported_write {
                return Err(("c16:reserved-accepted".into(), format!("{:?}({:?}) on front-end {} returned {} instead of InvalidInput", c.op, c.name, c.fe, ret.short())));
            }
            let d = diff();
            if !d.is_empty() {
                return Err(("c16:reserved-modified".into(), format!("{:?}({:?}) was rejected but modified the world: {:?}", c.op, c.name, d)));
            }
            for e in ev.iter().filter(|e| is_mutation(e) && !rel(&e.path).starts_with("staging") && !rel(&e.path).starts_with("TMP")) {
                return Err(("c16:reserved-modified".into(), format!("{:?}({:?}) was rejected but issued {}", c.op, c.name, e.short())));
            }
            return Ok(());
        }
        if invalid_input && diff().is_empty() {
            return Ok(());
        }
        // (a non-reserved name that fails later, e.g. with an embedded NUL rejected by the OS layer,
        // may have run maintenance first: its effects only have to be confined)
        // accepted name: confinement of every mutating call
        let single = !c.name.contains('/') && !c.name.contains('\0');
        let cand: Vec<String> = match &lay.cache_spec {
            Some(spec) => spec.candidate_dirs(root, &key).iter().map(|p| p.to_string_lossy().into_owned()).collect(),
            None => vec![],
        };
        let ro_cand: Vec<String> = match &lay.ro_spec {
            Some(spec) => spec.candidate_dirs(root, &key).iter().map(|p| p.to_string_lossy().into_owned()).collect(),
            None => vec![],
        };
        let cache_dir_strs: Vec<String> = cache_dirs.iter().map(|p| p.to_string_lossy().into_owned()).collect();
        let allowed = |e: &Event, path: &str| -> bool {
            let r = rel(path);
            if r.starts_with("staging/") || r == "staging" || r.starts_with("TMP/") || r == "TMP" {
                return true;
            }
            if path.contains("/../") || path.ends_with("/..") || path.contains("/./") {
                return false;
            }
            // creation of the configured directories themselves
            if e.call == "mkdir" {
                if let Some(spec) = &lay.cache_spec {
                    let top = root.join(spec.dir()).to_string_lossy().into_owned();
                    if path == top || cache_dir_strs.iter().any(|d| path == d || path == format!("{}/.kismet_temp", d)) {
                        return true;
                    }
                }
                return false;
            }
            for d in &cache_dir_strs {
                if let Some(x) = path.strip_prefix(&format!("{}/.kismet_temp/", d)) {
                    return !x.contains('/') && !x.is_empty();
                }
                if let Some(x) = path.strip_prefix(&format!("{}/", d)) {
                    if x.contains('/') || x.is_empty() || x.starts_with('.') {
                        return false;
                    }
                    // the entry itself, in one of its candidate directories; or a maintenance victim / reprieve
                    if x == c.name && single && cand.iter().any(|cd| cd == d) {
                        return true;
                    }
                    return matches!(e.call, "unlink" | "futimens" | "utimensat" | "open") && (e.call != "open" || e.arg as i32 & (libc::O_CREAT | libc::O_TRUNC) == 0);
                }
            }
            // read-only levels: only the access time of the entry found may advance
            for d in &ro_cand {
                if path == format!("{}/{}", d, c.name) && single && matches!(e.call, "futimens" | "utimensat") {
                    return e.times.map(|t| t[1].1 == libc::UTIME_OMIT).unwrap_or(false);
                }
                if path == format!("{}/{}", d, c.name) && single && e.call == "open" && e.arg as i32 & (libc::O_CREAT | libc::O_TRUNC) == 0 {
                    return true; // filetime's write-only fallback open; creates nothing
                }
            }
            false
        };
        for e in ev.iter().filter(|e| is_mutation(e)) {
            if e.call == "futimens" && e.path.is_empty() {
                continue;
            }
            if !allowed(e, &e.path) {
                return Err(("c16:escape".into(), format!("{:?}({:?}) on front-end {} issued a mutating call outside the entry's place: {}", c.op, c.name, c.fe, e.short())));
            }
            if (e.call == "rename" || e.call == "link") && !allowed(e, &e.path2) {
                return Err(("c16:escape".into(), format!("{:?}({:?}) on front-end {} published outside the entry's place: {}", c.op, c.name, c.fe, e.short())));
            }
        }
        // sentinels unchanged (everything that is not a direct non-dot child of a cache directory or temp content)
        for d in diff() {
            let p = d.split(' ').next().unwrap();
            let full = format!("{}/{}", root_s, p);
            let in_cache_dir = cache_dir_strs.iter().any(|cd| {
                full.strip_prefix(&format!("{}/", cd)).map(|x| (!x.contains('/') && !x.starts_with('.')) || (x.starts_with(".kismet_temp/") && !x[13..].contains('/')) || x == ".kismet_temp").unwrap_or(false) || &full == cd
            });
            if !in_cache_dir {
                return Err(("c16:sentinel-changed".into(), format!("{:?}({:?}) on front-end {}: {} (outside the cache's own entries)", c.op, c.name, c.fe, d)));
            }
        }
        // a lookup that returns a file must have found a direct child of a candidate directory
        if let Ret::File(g) = &ret {
            if c.op == OpKind::Get && !single {
                return Err(("c16:nested-lookup".into(), format!("get({:?}) returned a file although the name is not a single path component (inode {})", c.name, g.ino)));
            }
        }
        if let Ret::Bool(true) = &ret {
            if !single {
                return Err(("c16:nested-lookup".into(), format!("touch({:?}) found something although the name is not a single path component", c.name)));
            }
        }
        // a successful write through a writer must leave the entry exactly at its place
        if matches!(ret, Ret::Unit) && c.op.writes() && single {
            let found = cand.iter().any(|d| after.contains_key(&rel(&format!("{}/{}", d, c.name))));
            if !found {
                return Err(("c16:write-lost".into(), format!("{:?}({:?}) returned Ok but no entry exists in {:?}", c.op, c.name, cand.iter().map(|x| rel(x)).collect::<Vec<_>>())));
            }
        }
        Ok(())
    })();
    cleanup();
    result
}

pub fn replay(v: &serde_json::Value) -> Result<(), String> {
    let c: Case = serde_json::from_value(v["case"].clone()).map_err(|e| e.to_string())?;
    drop_privileges();
    let scratch = Scratch::new("c16r");
    std::env::set_var("TMPDIR", scratch.p("TMP"));
    judge(&scratch.path, &c).map_err(|(s, d)| format!("{}: {}", s, d))
}

pub fn features(name: &str) -> Vec<&'static str> {
    let mut f = Vec::new();
    if name.is_empty() {
        f.push("empty");
    }
    if is_reserved(name) && !name.is_empty() {
        f.push("reserved first byte");
    }
    if name.contains('/') {
        f.push("embedded /");
    }
    if name.split('/').any(|s| s == "..") {
        f.push(".. component");
    }
    if name.ends_with('/') || name.ends_with("/.") {
        f.push("trailing / or /.");
    }
    if name.contains('\0') {
        f.push("embedded NUL");
    }
    if name.len() >= 255 {
        f.push("long name");
    }
    if !name.is_ascii() {
        f.push("non-ASCII");
    }
    if name.contains('\\') {
        f.push("backslash");
    }
    f
}

pub fn run(ctx: &Ctx) -> Report {
    let mut rep = Report::default();
    rep.assumptions.insert(drop_privileges());
    let scratch = Scratch::new("c16");
    std::env::set_var("TMPDIR", scratch.p("TMP"));
    let cases = ctx.share(ctx.scale(60_000, 1_000_000)) as u32;
    let rep_cell = std::cell::RefCell::new(&mut rep);
    let found = prop_search(ctx, 16, cases, 2000, &gen_case(), |c, exploring| {
        if exploring {
            let mut rep = rep_cell.borrow_mut();
            let fs = features(&c.name);
            rep.case(if fs.is_empty() { None } else { Some(fnv(format!("{:?}", c).as_bytes())) });
            for f in &fs {
                rep.label(f);
            }
            rep.label(["fe:plain", "fe:sharded", "fe:stack plain+reader", "fe:stack sharded+reader", "fe:stack no writer", "fe:read-only", "fe:sharded 2^17 shards"][c.fe as usize]);
            if !fs.is_empty() && rep.samples.len() < 4 && rep.evaluations % 501 == 3 {
                let s = json!({"case": c});
                rep.sample(s);
            }
        }
        judge(&scratch.path, c).map_err(|(s, d)| format!("{}|{}", s, d))
    });
    drop(rep_cell);
    if let Some((msg, c)) = found {
        let (sig, detail) = msg.split_once('|').map(|(a, b)| (a.to_string(), b.to_string())).unwrap_or(("c16".into(), msg.clone()));
        rep.violation(&sig, detail, json!({"case": c}));
    }
    rep
}
