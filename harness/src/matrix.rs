//! The stack-configuration matrix: engine shared by C13, C14, C15, C19 (and the descriptor
//! clauses of C20).  Every point is executed against the real library on a real tree and judged
//! by `StackModel`, an independent model of the documented stacking semantics.
use crate::common::*;
use crate::fe::*;
use crate::shim::Event;
use serde::{Deserialize, Serialize};
use serde_json::json;
use std::path::{Path, PathBuf};

#[derive(Clone, Copy, Debug, PartialEq, Eq, Hash, Serialize, Deserialize)]
pub enum Hold {
    /// the level's directory does not exist at all (read-only levels only)
    NoDir,
    Empty,
    A,
    B,
    /// sharded levels: the copy sits in the key's secondary shard
    A2,
    B2,
}

impl Hold {
    pub fn content(self) -> Option<char> {
        match self {
            Hold::A | Hold::A2 => Some('A'),
            Hold::B | Hold::B2 => Some('B'),
            _ => None,
        }
    }
}

#[derive(Clone, Copy, Debug, PartialEq, Eq, Hash, Serialize, Deserialize)]
pub enum Kind {
    Plain,
    Sharded,
}

#[derive(Clone, Debug, PartialEq, Eq, Hash, Serialize, Deserialize)]
pub struct Point {
    pub writer: Option<(Kind, Hold)>,
    pub readers: Vec<(Kind, Hold)>,
    pub op: OpKind,
    /// what populate produces: 'A' / 'B' / 'C' (bytes equal to value A, B or a third value), 'N' NotFound, 'E' error
    pub pop: char,
    pub checker: Checker,
    pub nosy: bool,
    pub size: usize,
    pub umask: u32,
    /// use the ReadOnlyCache API instead of a Cache without writer (get/touch only)
    pub readonly_api: bool,
    /// the write cache's temporary directory cannot be created: a regular file named `.kismet_temp`
    /// (left by something else) sits where it should be. An operation that needs scratch space may
    /// then fail; one that reports success is held to the full expectation (checker calls included)
    #[serde(default)]
    pub temp_blocked: bool,
}

pub const KEY: &str = "key";

fn keyspec() -> KeySpec {
    KeySpec::new(KEY, 0x5eed_0000_1111_2222, 0x0bad_cafe_3333_4444)
}

pub fn value(c: char, size: usize) -> Val {
    match c {
        'A' => Val::new(KEY, 1, 1, size),
        'B' => Val::new(KEY, 2, 2, size),
        'C' => Val::new(KEY, 3, 3, size),
        _ => Val::new(KEY, 4, 4, size), // 'V': the value written by set/put
    }
}

fn dirspec(name: &str, k: Kind) -> DirSpec {
    dirspec_cap(name, k, false)
}

/// `tight`: one entry per directory, so that maintenance (scripted to fire) is over capacity as
/// soon as a second file exists
fn dirspec_cap(name: &str, k: Kind, tight: bool) -> DirSpec {
    match k {
        Kind::Plain => DirSpec::Plain { dir: name.to_string(), cap: if tight { 1 } else { 1 << 30 } },
        Kind::Sharded => DirSpec::Sharded { dir: name.to_string(), shards: 3, cap: if tight { 3 } else { 1 << 30 } },
    }
}

/// Tight points: the write cache starts without the key, holds one READ-MARKED bystander per
/// directory and has room for one entry per directory; maintenance fires on every write. A
/// maintenance that runs before the insertion has nothing to do; one that runs after it would
/// evict the entry that was just stored.
fn is_tight(p: &Point) -> bool {
    matches!(p.writer, Some((_, Hold::Empty))) && hash_str(&format!("tight{:?}", p)) % 4 == 0
}

fn level_name(i: usize) -> String {
    format!("R{}", i)
}

// ------------------------------------------------------------ enumeration

fn holds_for(kind: Kind, is_writer: bool, with_nodir: bool) -> Vec<Hold> {
    let mut v = vec![Hold::Empty, Hold::A, Hold::B];
    if kind == Kind::Sharded {
        v.push(Hold::A2);
        v.push(Hold::B2);
    }
    if !is_writer && with_nodir {
        v.push(Hold::NoDir);
    }
    v
}

/// Enumerates the matrix. `which` selects the dimensions a property cares about:
/// "C13": checker in {None, ByteEq}, pop in {C, E, N}, readers 0..=2
/// "C14": checker in {None, ByteEq, Panicking, Recording}, pop in {A, B, N, E}, readers 0..=3, lookups only
/// "C15": like C13 plus the ReadOnlyCache API and missing directories
/// "C19": like C13 with nosy judges and all checkers, three umasks
pub fn enumerate(which: &str, thorough: bool) -> Vec<Point> {
    let mut out = Vec::new();
    let kinds = [Kind::Plain, Kind::Sharded];
    let writers: Vec<Option<Kind>> = vec![None, Some(Kind::Plain), Some(Kind::Sharded)];
    let max_readers = if which == "C14" { 3 } else { 2 };
    let mut reader_seqs: Vec<Vec<Kind>> = vec![vec![]];
    for len in 1..=max_readers {
        if len <= 2 {
            let mut seqs: Vec<Vec<Kind>> = vec![vec![]];
            for _ in 0..len {
                let mut next = Vec::new();
                for s in &seqs {
                    for k in kinds {
                        let mut t = s.clone();
                        t.push(k);
                        next.push(t);
                    }
                }
                seqs = next;
            }
            reader_seqs.extend(seqs);
        } else {
            reader_seqs.push(vec![Kind::Plain; len]);
            reader_seqs.push(vec![Kind::Plain, Kind::Sharded, Kind::Plain]);
        }
    }
    let ops: Vec<OpKind> = match which {
        "C14" => vec![OpKind::Get, OpKind::Ensure, OpKind::GouAccept, OpKind::GouPromote, OpKind::GouReplace],
        _ => vec![OpKind::Get, OpKind::Touch, OpKind::Ensure, OpKind::GouAccept, OpKind::GouPromote, OpKind::GouReplace, OpKind::Set, OpKind::Put, OpKind::SetTemp, OpKind::PutTemp],
    };
    let checkers: Vec<Checker> = match which {
        "C13" | "C15" => vec![Checker::None, Checker::ByteEq],
        "C14" => vec![Checker::None, Checker::ByteEq, Checker::Panicking, Checker::Recording, Checker::ByteEqNotFound],
        _ => vec![Checker::None, Checker::ByteEq, Checker::Panicking, Checker::Recording],
    };
    let pops: Vec<char> = match which {
        "C14" => vec!['A', 'B', 'N', 'E'],
        "C19" => vec!['A', 'C', 'N'],
        _ => vec!['C', 'E', 'N', 'A'],
    };
    let sizes: Vec<usize> = if thorough { vec![1, 17, 8193, 70_000] } else { vec![17, 8193] };
    let umasks: Vec<u32> = if which == "C19" { vec![0o000, 0o022, 0o077] } else { vec![0o022] };
    let with_nodir = which == "C15";
    for w in &writers {
        for rs in &reader_seqs {
            if w.is_none() && rs.is_empty() && which != "C13" {
                continue;
            }
            // contents of every level
            let mut level_holds: Vec<Vec<Hold>> = Vec::new();
            if let Some(k) = w {
                level_holds.push(holds_for(*k, true, false));
            }
            for k in rs {
                // three-reader stacks: keep the product small (no secondary placements)
                let mut h = holds_for(*k, false, with_nodir);
                if rs.len() >= 3 {
                    h.retain(|x| matches!(x, Hold::Empty | Hold::A | Hold::B));
                }
                level_holds.push(h);
            }
            let mut combos: Vec<Vec<Hold>> = vec![vec![]];
            for hs in &level_holds {
                let mut next = Vec::new();
                for c in &combos {
                    for h in hs {
                        let mut t = c.clone();
                        t.push(*h);
                        next.push(t);
                    }
                }
                combos = next;
            }
            for combo in combos {
                let (wh, rh) = match w {
                    Some(k) => (Some((*k, combo[0])), &combo[1..]),
                    None => (None, &combo[..]),
                };
                let readers: Vec<(Kind, Hold)> = rs.iter().cloned().zip(rh.iter().cloned()).collect();
                for &op in &ops {
                    let uses_pop = matches!(op, OpKind::Ensure | OpKind::GouAccept | OpKind::GouPromote | OpKind::GouReplace);
                    let op_pops: Vec<char> = if uses_pop { pops.clone() } else { vec!['C'] };
                    let nosies: Vec<bool> = if uses_pop && matches!(which, "C19" | "C13") { vec![false, true] } else if which == "C19" { vec![true] } else { vec![false] };
                    for &checker in &checkers {
                        // the checker is irrelevant to touch/set/put: one row is enough
                        if !op.is_lookup() && checker != Checker::None && which != "C15" {
                            continue;
                        }
                        for &pop in &op_pops {
                            for &nosy in &nosies {
                                for &size in &sizes {
                                    for &umask in &umasks {
                                        out.push(Point { writer: wh, readers: readers.clone(), op, pop, checker, nosy, size, umask, readonly_api: false, temp_blocked: false });
                                        if w.is_none() && matches!(op, OpKind::Get | OpKind::Touch) && matches!(which, "C15" | "C14" | "C13") {
                                            out.push(Point { writer: None, readers: readers.clone(), op, pop, checker, nosy, size, umask, readonly_api: true, temp_blocked: false });
                                        }
                                    }
                                }
                            }
                        }
                    }
                }
            }
        }
    }
    out
}

// ------------------------------------------------------------------ model

#[derive(Clone, Debug, PartialEq)]
pub enum ExpRet {
    Miss,
    Val(Val),
    Bool(bool),
    Unit,
    /// Err with this ErrorKind name (None = any error)
    Err(Option<&'static str>),
    /// checker mismatch: Err for byte-equality/recording checkers, panic for the panicking one
    CheckerFail,
}

#[derive(Clone, Debug)]
pub struct Expect {
    pub ret: ExpRet,
    /// content of the writer after the call ('A','B','C','V' or None), None if no writer
    pub writer_after: Option<Option<char>>,
    pub judged: Option<&'static str>,
    /// index (0 = writer if present) of the level whose copy is the first found
    pub first_level: Option<usize>,
    pub copies: usize,
    pub populate_expected: Option<bool>,
}

pub fn model(p: &Point) -> Expect {
    let mut copies: Vec<(usize, char)> = Vec::new();
    let mut idx = 0;
    let w = p.writer.map(|(_, h)| h.content());
    if let Some(c) = w {
        if let Some(c) = c {
            copies.push((0, c));
        }
        idx = 1;
    }
    for (i, (_, h)) in p.readers.iter().enumerate() {
        if let Some(c) = h.content() {
            copies.push((idx + i, c));
        }
    }
    let has_writer = p.writer.is_some();
    let writer_copy = if has_writer { w.unwrap() } else { None };
    let reader_copies: Vec<char> = copies.iter().filter(|(l, _)| !(has_writer && *l == 0)).map(|(_, c)| *c).collect();
    let checker = p.checker != Checker::None;
    let consistent = |cs: &[char]| cs.windows(2).all(|w| w[0] == w[1]);
    let all: Vec<char> = copies.iter().map(|(_, c)| *c).collect();
    let first_level = copies.first().map(|(l, _)| *l);
    let v = |c: char| value(c, p.size);
    let mut e = Expect { ret: ExpRet::Miss, writer_after: if has_writer { Some(writer_copy) } else { None }, judged: None, first_level, copies: copies.len(), populate_expected: None };
    let pop_val = match p.pop {
        'A' | 'B' | 'C' => Some(p.pop),
        _ => None,
    };
    let pop_err = |p: char| if p == 'N' { ExpRet::Err(Some("NotFound")) } else { ExpRet::Err(Some("Other")) };
    match p.op {
        OpKind::Get => {
            e.ret = if all.is_empty() {
                ExpRet::Miss
            } else if checker && !consistent(&all) {
                ExpRet::CheckerFail
            } else {
                ExpRet::Val(v(all[0]))
            };
        }
        OpKind::Touch => e.ret = ExpRet::Bool(!all.is_empty()),
        OpKind::Set | OpKind::SetTemp => {
            if has_writer {
                e.ret = ExpRet::Unit;
                e.writer_after = Some(Some('V'));
            } else {
                e.ret = ExpRet::Err(Some("Unsupported"));
            }
        }
        OpKind::Put | OpKind::PutTemp => {
            if has_writer {
                e.ret = ExpRet::Unit;
                e.writer_after = Some(Some(writer_copy.unwrap_or('V')));
            } else {
                e.ret = ExpRet::Err(Some("Unsupported"));
            }
        }
        OpKind::Ensure | OpKind::GouAccept | OpKind::GouPromote | OpKind::GouReplace => {
            let replace = p.op == OpKind::GouReplace;
            let promote = matches!(p.op, OpKind::Ensure | OpKind::GouPromote);
            if let Some(wc) = writer_copy {
                if checker && !consistent(&all) {
                    e.ret = ExpRet::CheckerFail;
                    return e;
                }
                e.judged = Some("primary");
                if !replace {
                    e.populate_expected = Some(checker);
                    e.ret = if checker {
                        match pop_val {
                            None if p.pop == 'N' => ExpRet::Val(v(wc)),
                            None => pop_err(p.pop),
                            Some(pv) if pv == wc => ExpRet::Val(v(wc)),
                            Some(_) => ExpRet::CheckerFail,
                        }
                    } else {
                        ExpRet::Val(v(wc))
                    };
                } else {
                    e.populate_expected = Some(true);
                    match pop_val {
                        Some(pv) => {
                            e.ret = ExpRet::Val(v(pv));
                            e.writer_after = Some(Some(pv));
                        }
                        None => e.ret = pop_err(p.pop),
                    }
                }
            } else if !reader_copies.is_empty() {
                if checker && !consistent(&reader_copies) {
                    e.ret = ExpRet::CheckerFail;
                    return e;
                }
                let rc = reader_copies[0];
                e.judged = Some("secondary");
                if !replace {
                    e.populate_expected = Some(checker);
                    let mut ok = true;
                    if checker {
                        match pop_val {
                            None if p.pop == 'N' => {}
                            None => {
                                e.ret = pop_err(p.pop);
                                ok = false;
                            }
                            Some(pv) if pv == rc => {}
                            Some(_) => {
                                e.ret = ExpRet::CheckerFail;
                                ok = false;
                            }
                        }
                    }
                    if ok {
                        e.ret = ExpRet::Val(v(rc));
                        if promote && has_writer {
                            e.writer_after = Some(Some(rc));
                        }
                    }
                } else {
                    e.populate_expected = Some(true);
                    match pop_val {
                        Some(pv) => {
                            e.ret = ExpRet::Val(v(pv));
                            if has_writer {
                                e.writer_after = Some(Some(pv));
                            }
                        }
                        None => e.ret = pop_err(p.pop),
                    }
                }
            } else {
                e.populate_expected = Some(true);
                match pop_val {
                    Some(pv) => {
                        e.ret = ExpRet::Val(v(pv));
                        if has_writer {
                            e.writer_after = Some(Some(pv));
                        }
                    }
                    None => e.ret = pop_err(p.pop),
                }
            }
        }
    }
    e
}

// -------------------------------------------------------------- execution

#[derive(Clone, Debug)]
pub struct Finding {
    pub prop: &'static str,
    pub sig: String,
    pub detail: String,
}

pub struct PointResult {
    pub findings: Vec<Finding>,
    pub ret: Ret,
    pub expect: Expect,
    pub published: bool,
    pub handle_after_consumer: bool,
    pub ro_touched: bool,
    pub peak_fds: i64,
}

fn level_paths(root: &Path, name: &str, kind: Kind) -> Vec<PathBuf> {
    dirspec(name, kind).candidate_dirs(root, &keyspec())
}

thread_local! {
    /// read-only levels holding content B are dated one hour in the future (a peer with a fast clock)
    static FUTURE_B: std::cell::Cell<bool> = const { std::cell::Cell::new(false) };
}

fn plant_level(root: &Path, name: &str, kind: Kind, hold: Hold, size: usize, old: i128) {
    if hold == Hold::NoDir {
        return;
    }
    crate::shim::bypass(|| std::fs::create_dir_all(root.join(name)).unwrap());
    let dirs = level_paths(root, name, kind);
    let (c, d) = match hold {
        Hold::A => ('A', &dirs[0]),
        Hold::B => ('B', &dirs[0]),
        Hold::A2 => ('A', &dirs[dirs.len() - 1]),
        Hold::B2 => ('B', &dirs[dirs.len() - 1]),
        _ => return,
    };
    let p = d.join(KEY);
    plant_file(&p, &value(c, size).encode(), 0o444);
    // unread, in the past (or, for B copies of read-only levels when asked, an hour in the future)
    let m = if c == 'B' && name != "W" && FUTURE_B.with(|f| f.get()) { now_ns() + 3_600_000_000_000 } else { old };
    set_times_ns(&p, m - 120_000_000_000, m).unwrap();
}

fn key_files(snap: &Snap, level: &str) -> Vec<(String, Ent)> {
    snap.iter().filter(|(p, e)| e.kind == 'f' && p.starts_with(&format!("{}/", level)) && p.rsplit('/').next() == Some(KEY) && !p.contains(".kismet_temp")).map(|(p, e)| (p.clone(), e.clone())).collect()
}

fn content_char(v: &Val) -> char {
    match v.writer {
        1 => 'A',
        2 => 'B',
        3 => 'C',
        4 => 'V',
        _ => '?',
    }
}

fn is_mutation(e: &Event) -> bool {
    match e.call {
        "open" => (e.arg as i32 & (libc::O_CREAT | libc::O_TRUNC)) != 0 || (e.arg as i32 & libc::O_TMPFILE) == libc::O_TMPFILE,
        "futimens" | "utimensat" => e.times.map(|t| t[1].1 != libc::UTIME_OMIT).unwrap_or(true),
        "mkdir" | "rename" | "link" | "unlink" | "rmdir" | "chmod" | "fchmod" | "write" | "ftruncate" | "symlink" | "copy_file_range" => true,
        _ => false,
    }
}

pub fn run_point(root: &Path, p: &Point) -> PointResult {
    let t0 = now_ns();
    let old = t0 - 86_400_000_000_000;
    let expect = model(p);
    let mut findings: Vec<Finding> = Vec::new();
    let mut add = |prop: &'static str, sig: &str, detail: String| findings.push(Finding { prop, sig: sig.to_string(), detail });
    // build the tree
    crate::shim::bypass(|| std::fs::create_dir_all(root.join("TMP")).unwrap());
    if let Some((k, h)) = p.writer {
        crate::shim::bypass(|| std::fs::create_dir_all(root.join("W")).unwrap());
        plant_level(root, "W", k, h, p.size, old);
    }
    for (i, (k, h)) in p.readers.iter().enumerate() {
        plant_level(root, &level_name(i), *k, *h, p.size, old);
    }
    // an unrelated entry sits in every existing level: no operation on `key` may disturb it
    let bystander = KeySpec::new("bystander", 0x7777_0000_1111_2222, 0x3333_4444_5555_6666);
    if let Some((k, _)) = p.writer {
        let d = dirspec("W", k).candidate_dirs(root, &bystander)[0].clone();
        plant_file(&d.join("bystander"), &Val::new("bystander", 9, 9, 17).encode(), 0o444);
        let m = old - 5_000_000_000;
        set_times_ns(&d.join("bystander"), if is_tight(p) { m + 1 } else { m - 120_000_000_000 }, m).unwrap();
        if is_tight(p) && k == Kind::Sharded {
            // every shard gets its read-marked occupant
            for s in 0..3u64 {
                let sd = root.join("W").join(crate::shardoracle::dir_name(s));
                if !sd.join("bystander").exists() {
                    plant_file(&sd.join(format!("occupant{}", s)), &Val::new(&format!("occupant{}", s), 9, 9, 17).encode(), 0o444);
                    set_times_ns(&sd.join(format!("occupant{}", s)), m + 1, m).unwrap();
                }
            }
        }
    }
    for (i, (k, h)) in p.readers.iter().enumerate() {
        if *h != Hold::NoDir {
            let d = dirspec(&level_name(i), *k).candidate_dirs(root, &bystander)[0].clone();
            plant_file(&d.join("bystander"), &Val::new("bystander", 9, 9, 17).encode(), 0o444);
            set_times_ns(&d.join("bystander"), old - 120_000_000_000, old - 5_000_000_000).unwrap();
        }
    }
    if p.temp_blocked {
        if let Some((k, _)) = p.writer {
            let mut dirs = level_paths(root, "W", k);
            dirs.push(root.join("W"));
            for d in dirs {
                crate::shim::bypass(|| {
                    let _ = std::fs::create_dir_all(&d);
                    let _ = std::fs::write(d.join(".kismet_temp"), b"not a directory");
                });
            }
        }
    }
    let before = snapshot(root);
    let spec = StackSpec {
        writer: p.writer.map(|(k, _)| dirspec_cap("W", k, is_tight(p))),
        readers: p.readers.iter().enumerate().map(|(i, (k, _))| dirspec(&level_name(i), *k)).collect(),
        checker: p.checker,
        // a third of the points disable auto_sync: everything but the flush must stay the same
        auto_sync: hash_str(&format!("{:?}", p)) % 3 != 0,
    };
    let pop_c = match p.pop {
        'A' | 'B' | 'C' => p.pop,
        _ => 'C',
    };
    let val = if p.op.is_lookup() { value(pop_c, p.size) } else { value('V', p.size) };
    let op = Op { kind: p.op, key: keyspec(), val, pop: match p.pop { 'N' => Pop::NotFound, 'E' => Pop::Error, _ => Pop::Value }, nosy: p.nosy, link_from: None };
    let world = trace_world(&[root]);
    // C19: under umask 077 the application hands over a temp file object it made 0755 itself
    set_temp_mode(if p.umask == 0o077 { 0o755 } else if p.umask == 0 { 0o2770 } else { 0 });
    let old_umask = unsafe { libc::umask(p.umask as libc::mode_t) };
    let mut log_entries: Vec<(Vec<u8>, Vec<u8>)> = Vec::new();
    let (res, ev) = traced(&world, || {
        script_rng(is_tight(p), 1);
        let h = if p.readonly_api { open_readonly(root, &spec.readers, p.checker) } else { open_stack(root, &spec) };
        let r = exec(root, &h, &op);
        match &h {
            Handle::Stack(_, log) | Handle::Ro(_, log) => {
                if let Ok(l) = log.lock() {
                    log_entries = l.clone();
                }
            }
            _ => {}
        }
        r
    });
    unsafe { libc::umask(old_umask) };
    set_temp_mode(0);
    let leaked = world.open_fds();
    let after = snapshot(root);
    let (ret, side) = match res {
        Ok(x) => x,
        Err(pmsg) => (Ret::Panic(pmsg), Side::default()),
    };
    let root_s = root.to_string_lossy().into_owned();
    let desc = format!("{:?}", p);

    // ---- C13 / C14: the result
    let checker_fail_ok = |r: &Ret| match p.checker {
        Checker::ByteEqNotFound => matches!(r, Ret::Err(e) if e.kind == "NotFound"),
        Checker::Panicking => matches!(r, Ret::Panic(m) if m.contains("file contents do not match")),
        _ => matches!(r, Ret::Err(_)),
    };
    let ret_matches = match (&expect.ret, &ret) {
        (ExpRet::Miss, Ret::Miss) => true,
        (ExpRet::Val(v), Ret::File(g)) => g.val.as_ref().ok() == Some(v),
        (ExpRet::Bool(b), Ret::Bool(c)) => b == c,
        (ExpRet::Unit, Ret::Unit) => true,
        (ExpRet::Err(k), Ret::Err(e)) => k.map(|k| k == e.kind).unwrap_or(true),
        (ExpRet::CheckerFail, r) => checker_fail_ok(r),
        _ => false,
    };
    let checker_row = p.checker != Checker::None;
    if !ret_matches {
        let checker_related = matches!(expect.ret, ExpRet::CheckerFail) || (checker_row && (ret.is_err() != matches!(expect.ret, ExpRet::Err(_))));
        if checker_related {
            let sig = if matches!(expect.ret, ExpRet::CheckerFail) { "c14:inconsistency-accepted" } else { "c14:consistent-rejected" };
            add("C14", sig, format!("expected {:?}, got {} at {}", expect.ret, ret.short(), desc));
        } else {
            add("C13", "c13:result", format!("expected {:?}, got {} at {}", expect.ret, ret.short(), desc));
        }
    }
    // judge's hit kind
    if !matches!(expect.ret, ExpRet::CheckerFail) && p.op != OpKind::Ensure && p.op.is_lookup() && p.op != OpKind::Get {
        if side.judged.as_deref() != expect.judged {
            add("C13", "c13:hit-kind", format!("judge saw {:?}, expected {:?} at {}", side.judged, expect.judged, desc));
        }
        if p.nosy {
            if let (Some(saw), Some(fl)) = (&side.judge_saw, expect.first_level) {
                let want = if p.writer.is_some() && fl == 0 { p.writer.unwrap().1.content() } else { p.readers.iter().filter_map(|(_, h)| h.content()).next() };
                if saw.as_ref().ok().map(content_char) != want {
                    add("C19", "c19:judge-handle", format!("judge could not read the whole hit from its handle: saw {:?} at {}", saw.as_ref().map(|v| v.header()), desc));
                }
            }
        }
    }
    // ---- C13: effects on the writer
    if let Some(exp_w) = expect.writer_after {
        let files = key_files(&after, "W");
        let got: Vec<Option<char>> = files.iter().map(|(_, e)| e.val.as_ref().map(content_char)).collect();
        let skip = matches!(expect.ret, ExpRet::CheckerFail) || (ret.is_err() && !matches!(expect.ret, ExpRet::Err(_)));
        if !skip {
            match exp_w {
                None => {
                    if !files.is_empty() {
                        add("C13", "c13:writer-effect", format!("write cache should hold nothing for the key, found {:?} at {}", files.iter().map(|f| &f.0).collect::<Vec<_>>(), desc));
                    }
                }
                Some(c) => {
                    if files.len() != 1 || got[0] != Some(c) {
                        let sig = if matches!(p.op, OpKind::Ensure | OpKind::GouPromote) && expect.judged == Some("secondary") { "c13:promote-missing-or-wrong" } else { "c13:writer-effect" };
                        add("C13", sig, format!("write cache should hold exactly one copy with content {}, found {:?} at {}", c, files.iter().map(|(p, e)| (p.clone(), e.val.as_ref().map(|v| v.header()), e.size)).collect::<Vec<_>>(), desc));
                    }
                }
            }
            // unchanged writer content must be the very same file (Accept changes nothing)
            let before_w = key_files(&before, "W");
            if let (Some(b), Some(a)) = (before_w.first(), files.first()) {
                let same_content = exp_w == p.writer.and_then(|(_, h)| h.content());
                let is_set = matches!(p.op, OpKind::Set | OpKind::SetTemp) || (p.op == OpKind::GouReplace);
                if same_content && !is_set && (b.1.ino != a.1.ino || b.1.mtime != a.1.mtime || b.0 != a.0) {
                    add("C13", "c13:writer-rewritten", format!("the write cache entry was rewritten although the operation must leave it in place ({} -> {}) at {}", b.0, a.0, desc));
                }
            }
        }
    }
    // touch marks the first copy found and only that one; get marks the first copy
    if p.op == OpKind::Touch {
        let mut level = 0usize;
        let mut levels: Vec<String> = Vec::new();
        if p.writer.is_some() {
            levels.push("W".into());
        }
        for i in 0..p.readers.len() {
            levels.push(level_name(i));
        }
        for l in &levels {
            for (path, b) in key_files(&before, l) {
                if let Some(a) = after.get(&path) {
                    let marked = a.atime >= a.mtime;
                    let is_first = Some(level) == expect.first_level;
                    if is_first && !marked {
                        add("C13", "c13:touch-not-marked", format!("touch did not mark the first copy {} at {}", path, desc));
                    }
                    if !is_first && a.atime != b.atime {
                        add("C13", "c13:touch-marked-other-copy", format!("touch changed the access time of {} which is not the first copy found, at {}", path, desc));
                    }
                }
            }
            level += 1;
        }
    }
    // ---- C13: unrelated entries are untouched (eviction is out of play: capacities are huge)
    for (path, b) in before.iter().filter(|(p, e)| e.kind == 'f' && p.ends_with("/bystander")) {
        match after.get(path) {
            Some(a) if a.ino == b.ino && a.hash == b.hash && a.mtime == b.mtime && a.atime == b.atime && a.mode == b.mode => {}
            other => add("C13", "c13:bystander-disturbed", format!("an operation on `key` changed the unrelated entry {} ({:?} -> {:?}) at {}", path, (b.ino, b.mtime, b.atime, b.mode), other.map(|a| (a.ino, a.mtime, a.atime, a.mode)), desc)),
        }
    }
    // ---- C14: recording checker sees every redundant copy; no checker => later copies not consulted
    if p.checker == Checker::Recording && p.op.is_lookup() && !ret.is_err() {
        let mut contents: Vec<Vec<u8>> = Vec::new();
        if let Some((_, h)) = p.writer {
            if let Some(c) = h.content() {
                contents.push(value(c, p.size).encode());
            }
        }
        // Replace on a miss in the writer consults only the read-only copies
        for (_, h) in &p.readers {
            if let Some(c) = h.content() {
                contents.push(value(c, p.size).encode());
            }
        }
        if contents.len() >= 2 {
            let shown = log_entries.len();
            if shown < contents.len() - 1 {
                add("C14", "c14:copy-not-checked", format!("{} copies present but the checker was invoked only {} time(s) at {}", contents.len(), shown, desc));
            }
            for (a, b) in &log_entries {
                if a.is_empty() || b.is_empty() {
                    add("C14", "c14:checker-saw-empty", format!("the checker was shown an exhausted / empty handle (lengths {} and {}) at {}", a.len(), b.len(), desc));
                }
            }
        }
        if p.op != OpKind::Get && p.op != OpKind::GouReplace && expect.populate_expected == Some(true) && matches!(p.pop, 'A' | 'B' | 'C') && expect.copies >= 1 {
            // the populated value must have been shown to the checker
            let pv = value(p.pop, p.size).encode();
            if !log_entries.iter().any(|(a, b)| *a == pv || *b == pv) {
                add("C14", "c14:populate-not-compared", format!("a hit was accepted without comparing it with the freshly populated value at {}", desc));
            }
        }
    }
    if p.checker == Checker::None && expect.copies >= 1 && matches!(p.op, OpKind::Get | OpKind::Touch | OpKind::GouAccept | OpKind::Ensure | OpKind::GouPromote) {
        // later levels must not be consulted after the first hit
        if let Some(fl) = expect.first_level {
            let base = if p.writer.is_some() { 1 } else { 0 };
            for i in 0..p.readers.len() {
                if base + i > fl {
                    let prefix = format!("{}/{}/", root_s, level_name(i));
                    if let Some(e) = ev.iter().find(|e| e.path.starts_with(&prefix) && matches!(e.call, "open" | "stat" | "utimensat" | "chmod" | "unlink" | "rename" | "link")) {
                        add("C14", "c14:consulted-without-checker", format!("no checker configured but a later level was consulted after the first hit: {} at {}", e.short(), desc));
                        break;
                    }
                }
            }
        }
    }
    // ---- C15: read-only levels are never modified
    let mut ro_touched = false;
    for (i, (kind, hold)) in p.readers.iter().enumerate() {
        let name = level_name(i);
        let prefix = format!("{}/{}", root_s, name);
        for e in ev.iter().filter(|e| e.path == prefix || e.path.starts_with(&format!("{}/", prefix)) || e.path2.starts_with(&format!("{}/", prefix))) {
            ro_touched = true;
            if is_mutation(e) {
                add("C15", "c15:mutating-call", format!("mutating call on a read-only cache: {} (times {:?}) at {}", e.short(), e.times, desc));
            }
        }
        for (path, b) in before.iter().filter(|(p, _)| **p == name || p.starts_with(&format!("{}/", name))) {
            match after.get(path) {
                None => add("C15", "c15:changed", format!("{} disappeared from a read-only cache at {}", path, desc)),
                Some(a) => {
                    if a.kind != b.kind || a.hash != b.hash || a.mode != b.mode || a.mtime != b.mtime || a.ino != b.ino || a.size != b.size {
                        add("C15", "c15:changed", format!("{} changed in a read-only cache ({:?} -> {:?}) at {}", path, (b.mode, b.mtime, b.ino), (a.mode, a.mtime, a.ino), desc));
                    }
                    // (an entry dated in the future, by a peer with a fast clock, has an artificial atime as
                    // well; marking it as used sets its atime to the present, which is "earlier")
                    if a.atime < b.atime && b.mtime <= t0 {
                        add("C15", "c15:changed", format!("{}: access time moved backwards in a read-only cache at {}", path, desc));
                    }
                }
            }
        }
        for path in after.keys().filter(|p| **p == name || p.starts_with(&format!("{}/", name))) {
            if !before.contains_key(path) {
                add("C15", "c15:created", format!("{} was created inside (or as) a read-only cache directory at {}", path, desc));
            }
        }
        let _ = (kind, hold);
    }
    // ---- C19: handles and modes
    let mut handle_after_consumer = false;
    if let Ret::File(g) = &ret {
        let throw_away = p.writer.is_none() && expect.populate_expected == Some(true) && !matches!(expect.ret, ExpRet::Val(ref v) if Some(content_char(v)) == p.readers.iter().filter_map(|(_, h)| h.content()).next() && p.op != OpKind::GouReplace);
        let served_from_throw_away = p.writer.is_none() && p.op.is_lookup() && p.op != OpKind::Get && (expect.copies == 0 || p.op == OpKind::GouReplace);
        let _ = throw_away;
        if g.accmode != libc::O_RDONLY && !served_from_throw_away {
            add("C19", "c19:handle-writable", format!("returned handle has access mode {} (not O_RDONLY) at {}", g.accmode, desc));
        }
        if g.offset != 0 {
            add("C19", "c19:handle-offset", format!("returned handle is positioned at offset {} (content read from there: {:?}) at {}", g.offset, g.val.as_ref().map(|v| v.header()), desc));
        }
        if g.val.is_err() && g.offset == 0 {
            add("C19", "c19:handle-content", format!("returned handle does not yield a whole value: {:?} at {}", g.val, desc));
        }
        handle_after_consumer = p.nosy || checker_row;
    }
    let mut published = false;
    if p.writer.is_some() {
        for (path, e) in key_files(&after, "W") {
            let is_new = before.get(&path).map(|b| b.ino != e.ino).unwrap_or(true);
            if is_new {
                published = true;
            }
            if e.mode & 0o222 != 0 {
                add("C19", "c19:mode-writable", format!("{} has mode {:o} (write bits) at {}", path, e.mode, desc));
            }
            if is_new && matches!(p.op, OpKind::Ensure | OpKind::GouAccept | OpKind::GouPromote | OpKind::GouReplace | OpKind::SetTemp | OpKind::PutTemp) && e.mode != 0o444 {
                add("C19", "c19:mode-not-0444", format!("{} published by the library has mode {:o}, expected 0444 (umask {:o}) at {}", path, e.mode, p.umask, desc));
            }
            // placement: directly in a plain write cache, in one of the key's two shards otherwise
            if let Some((k, _)) = p.writer {
                let ok = level_paths(Path::new(""), "W", k).iter().any(|d| d.join(KEY).to_string_lossy() == path);
                if !ok {
                    add("C13", "c13:misplaced", format!("{} is not where a {:?} write cache stores this key, at {}", path, k, desc));
                }
            }
            if e.val.is_none() {
                add("C13", "c13:writer-garbage", format!("{} in the write cache is not a complete value ({} bytes) at {}", path, e.size, desc));
            }
        }
    }
    // ---- C20 (descriptor clauses): peak and residual descriptors
    let mut cur = 0i64;
    let mut peak = 0i64;
    for e in &ev {
        match e.call {
            "open" | "opendir" if e.ok() => {
                cur += 1;
                peak = peak.max(cur);
            }
            "close" | "closedir" => cur -= 1,
            _ => {}
        }
    }
    let bound = if checker_row && p.op.is_lookup() { 3 } else { 2 };
    let adopted = matches!(p.op, OpKind::SetTemp | OpKind::PutTemp) as i64;
    if peak + adopted > bound + adopted {
        add("C20", "c20:peak-descriptors", format!("{} files/directory streams open at once (bound {}) at {}", peak, bound, desc));
    }
    if !leaked.is_empty() {
        add("C20", "c20:descriptor-leak", format!("descriptors still open after the call returned and its handle was dropped: {:?} at {}", leaked.iter().map(|(fd, i)| (fd, i.path.clone())).collect::<Vec<_>>(), desc));
    }
    if ev.iter().any(|e| matches!(e.call, "flock" | "lockf" | "fcntl_lock")) {
        add("C20", "c20:lock", format!("a locking primitive was used at {}", desc));
    }
    if p.op == OpKind::Get {
        // a lookup makes at most two file-open attempts per cache directory
        let mut levels: Vec<String> = Vec::new();
        if p.writer.is_some() {
            levels.push("W".into());
        }
        for i in 0..p.readers.len() {
            levels.push(level_name(i));
        }
        for l in &levels {
            let prefix = format!("{}/{}/", root_s, l);
            let n = ev.iter().filter(|e| e.call == "open" && e.idx != u32::MAX && e.path.starts_with(&prefix)).count();
            if n > 2 {
                add("C20", "c20:too-many-opens", format!("a lookup made {} file-open attempts in cache directory {} (at most 2 allowed) at {}", n, l, desc));
            }
        }
    }
    // cleanup
    crate::shim::bypass(|| {
        if let Ok(rd) = std::fs::read_dir(root) {
            for e in rd.flatten() {
                let _ = std::fs::remove_dir_all(e.path());
            }
        }
    });
    if p.temp_blocked && matches!(ret, Ret::Err(_)) {
        // the operation needed scratch space, found none and said so: no further claim
        findings.clear();
    }
    PointResult { findings, ret, expect, published, handle_after_consumer, ro_touched, peak_fds: peak }
}

pub fn point_json(p: &Point) -> serde_json::Value {
    json!({ "point": p })
}

/// Generic driver: runs the enumeration `which` and reports findings of property `prop`.
pub fn run_matrix(ctx: &Ctx, prop: &'static str, which: &str, nontrivial: impl Fn(&Point, &PointResult) -> bool) -> Report {
    let mut rep = Report { exhaustive: true, ..Default::default() };
    FUTURE_B.with(|f| f.set(which == "C15"));
    rep.assumptions.insert(drop_privileges());
    let scratch = Scratch::new(&format!("mx{}", prop));
    std::env::set_var("TMPDIR", scratch.p("TMP"));
    let points = enumerate(which, ctx.tier == Tier::Thorough);
    rep.extra.insert("matrix_points_total".into(), json!(points.len()));
    for (i, p) in points.iter().enumerate() {
        if !ctx.mine(i as u64) {
            continue;
        }
        let r = run_point(&scratch.path, p);
        rep.evaluations += 1;
        if nontrivial(p, &r) {
            rep.nontrivial_enum += 1;
        }
        rep.label(&format!("op:{:?}", p.op));
        rep.label(&format!("checker:{:?}", p.checker));
        rep.label(&format!("levels:{}", p.readers.len() + p.writer.is_some() as usize));
        for f in r.findings.iter().filter(|f| f.prop == prop) {
            rep.violation(&f.sig, f.detail.clone(), point_json(p));
        }
        // C14: the same point once more with the write cache's temporary directory blocked (scratch
        // space for the comparison against a freshly populated value cannot be created)
        if which == "C14" && p.writer.is_some() && p.checker != Checker::None && matches!(p.op, OpKind::Ensure | OpKind::GouAccept | OpKind::GouPromote) {
            let mut q = p.clone();
            q.temp_blocked = true;
            let r = run_point(&scratch.path, &q);
            rep.evaluations += 1;
            rep.label(if matches!(r.ret, Ret::Err(_)) { "temp dir blocked: operation reported an error" } else { "temp dir blocked: operation succeeded (held to the full expectation)" });
            if !matches!(r.ret, Ret::Err(_)) && nontrivial(&q, &r) {
                rep.nontrivial_enum += 1;
            }
            for f in r.findings.iter().filter(|f| f.prop == prop) {
                rep.violation(&f.sig, f.detail.clone(), point_json(&q));
            }
        }
        if rep.samples.len() < 3 && i % 7919 == 13 {
            rep.sample(json!({"point": p, "result": r.ret.short()}));
        }
    }
    if rep.samples.is_empty() {
        if let Some(p) = points.first() {
            rep.sample(point_json(p));
        }
    }
    rep
}

pub fn replay_point(prop: &str, v: &serde_json::Value) -> Result<(), String> {
    let p: Point = serde_json::from_value(v["point"].clone()).map_err(|e| e.to_string())?;
    FUTURE_B.with(|f| f.set(prop == "C15"));
    drop_privileges();
    let scratch = Scratch::new("mxr");
    std::env::set_var("TMPDIR", scratch.p("TMP"));
    let r = run_point(&scratch.path, &p);
    match r.findings.iter().find(|f| f.prop == prop) {
        Some(f) => Err(format!("{}: {}", f.sig, f.detail)),
        None => Ok(()),
    }
}
