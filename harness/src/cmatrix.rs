//! C13, C14, C15 (matrix part), C19: thin wrappers over the matrix engine.
use crate::common::*;
use crate::fe::OpKind;
use crate::matrix::*;

pub fn run_c13(ctx: &Ctx) -> Report {
    run_matrix(ctx, "C13", "C13", |p, _| p.writer.map(|w| w.1.content().is_some()).unwrap_or(false) || p.readers.iter().any(|r| r.1.content().is_some()) || p.op.writes())
}
pub fn replay_c13(v: &serde_json::Value) -> Result<(), String> {
    replay_point("C13", v)
}

pub fn run_c14(ctx: &Ctx) -> Report {
    run_matrix(ctx, "C14", "C14", |p, r| r.expect.copies >= 2 || (r.expect.copies >= 1 && r.expect.populate_expected == Some(true) && matches!(p.pop, 'A' | 'B') && p.op != OpKind::GouReplace))
}
pub fn replay_c14(v: &serde_json::Value) -> Result<(), String> {
    replay_point("C14", v)
}

pub fn run_c19(ctx: &Ctx) -> Report {
    run_matrix(ctx, "C19", "C19", |_, r| r.handle_after_consumer || r.published)
}
pub fn replay_c19(v: &serde_json::Value) -> Result<(), String> {
    replay_point("C19", v)
}

pub fn run_c15_matrix(ctx: &Ctx) -> Report {
    run_matrix(ctx, "C15", "C15", |_, r| r.ro_touched)
}
pub fn replay_c15(v: &serde_json::Value) -> Result<(), String> {
    replay_point("C15", v)
}
