//! C11 — sequential histories behave like a key-value map with explainable evictions.
use crate::common::*;
use crate::direxplain::{explain, DirState};
use crate::fe::*;
use proptest::prelude::*;
use serde::{Deserialize, Serialize};
use serde_json::json;
use std::collections::{BTreeMap, BTreeSet};
use std::path::Path;

#[derive(Clone, Debug, Serialize, Deserialize)]
pub struct Step {
    pub handle: u8,
    /// index into OPS
    pub op: u8,
    pub key: u8,
    pub fire: bool,
    pub shard_draw: u8,
    /// set/put: the source is a fresh hard link to the file currently cached under the key (if any)
    #[serde(default)]
    pub linked: bool,
}

#[derive(Clone, Debug, Serialize, Deserialize)]
pub struct Hist {
    /// 0 plain, 1 sharded, 2 stacked over plain, 3 stacked over sharded
    pub fe: u8,
    pub shards: u8,
    pub cap_sel: u8,
    pub reader: bool,
    pub handles: u8,
    /// per key: (hash selector, secondary selector)
    pub keys: Vec<(u8, u8)>,
    pub steps: Vec<Step>,
}

pub const OPS: &[OpKind] = &[OpKind::Set, OpKind::Put, OpKind::Get, OpKind::Touch, OpKind::Ensure, OpKind::GouAccept, OpKind::GouPromote, OpKind::GouReplace, OpKind::SetTemp, OpKind::PutTemp];
const HASHES: &[u64] = &[0, 1, 0x8000_0000_0000_0000, u64::MAX, 0x1234_5678_9abc_def0, 0x0f0f_0f0f_0f0f_0f0f, 42, 0xdead_beef_0000_0001];

pub fn gen_hist(max_steps: usize) -> impl Strategy<Value = Hist> {
    (
        0u8..4,
        2u8..9,
        0u8..7,
        any::<bool>(),
        1u8..4,
        prop::collection::vec((0u8..8, 0u8..8), 3..7),
        prop::collection::vec((0u8..3, 0u8..10, 0u8..7, prop::bool::weighted(0.4), 0u8..8, prop::bool::weighted(0.1)), 1..max_steps),
    )
        .prop_map(|(fe, shards, cap_sel, reader, handles, keys, steps)| Hist {
            fe,
            shards,
            cap_sel,
            reader,
            handles,
            keys,
            steps: steps.into_iter().map(|(handle, op, key, fire, shard_draw, linked)| Step { handle, op, key, fire, shard_draw, linked }).collect(),
        })
}

fn writer_spec(h: &Hist) -> DirSpec {
    let caps = [0usize, 1, 2, 3, 5, 8, 1 << 40];
    let c = caps[h.cap_sel as usize % caps.len()];
    if h.fe % 2 == 0 {
        DirSpec::Plain { dir: "W".into(), cap: c }
    } else {
        let n = h.shards.max(2) as usize;
        DirSpec::Sharded { dir: "W".into(), shards: n, cap: if c >= 1 << 40 { c } else { c.max(1) * n / 2 } }
    }
}

fn key_spec(h: &Hist, i: u8) -> KeySpec {
    let i = i as usize % h.keys.len();
    let (a, b) = h.keys[i];
    KeySpec::new(&format!("k{}", i), HASHES[a as usize % HASHES.len()], HASHES[b as usize % HASHES.len()])
}

pub struct Outcome {
    pub evictions: u64,
    pub secondary_lookups: u64,
    pub writing_handles: usize,
    pub steps: u64,
}

pub fn judge(root: &Path, h: &Hist) -> Result<Outcome, (String, String)> {
    let wspec = writer_spec(h);
    let stacked = h.fe >= 2;
    let reader_spec = DirSpec::Plain { dir: "R".into(), cap: 0 };
    let with_reader = stacked && h.reader;
    let old = now_ns() - 86_400_000_000_000;
    let mut reader_model: BTreeMap<String, Val> = BTreeMap::new();
    crate::shim::bypass(|| std::fs::create_dir_all(root.join("W")).unwrap());
    if with_reader {
        crate::shim::bypass(|| std::fs::create_dir_all(root.join("R")).unwrap());
        for i in (0..h.keys.len()).step_by(2) {
            let ks = key_spec(h, i as u8);
            let v = Val::new(&ks.name, 60, i as u32, 17);
            plant_file(&root.join("R").join(&ks.name), &v.encode(), 0o444);
            set_times_ns(&root.join("R").join(&ks.name), old - 120_000_000_000, old).unwrap();
            reader_model.insert(ks.name.clone(), v);
        }
    }
    // application data (dot-prefixed) sits next to the entries in every directory of the write cache:
    // it must never be counted, moved or removed
    let app_dirs: Vec<std::path::PathBuf> = match &wspec {
        DirSpec::Plain { dir, .. } => vec![root.join(dir)],
        DirSpec::Sharded { dir, shards, .. } => (0..*shards).map(|s| root.join(dir).join(crate::shardoracle::dir_name(s as u64))).collect(),
    };
    for d in &app_dirs {
        plant_file(&d.join(".app_state"), b"application state", 0o644);
        set_times_ns(&d.join(".app_state"), old - 120_000_000_000, old).unwrap();
    }
    let spec = StackSpec { writer: Some(wspec.clone()), readers: if with_reader { vec![reader_spec] } else { vec![] }, checker: Checker::None, auto_sync: false };
    let handles: Vec<Handle> = (0..h.handles.max(1)).map(|_| if stacked { open_stack(root, &spec) } else { open_dir(root, &wspec) }).collect();
    let world = trace_world(&[root]);
    let mut model: BTreeMap<String, Val> = BTreeMap::new();
    let mut out = Outcome { evictions: 0, secondary_lookups: 0, writing_handles: 0, steps: 0 };
    let mut writers_used: BTreeSet<u8> = BTreeSet::new();
    let root_s = root.to_string_lossy().into_owned();
    let cap = wspec.dir_capacity();
    let mut prev = snapshot(&root.join("W"));
    let cleanup = || crate::shim::bypass(|| {
        if let Ok(rd) = std::fs::read_dir(root) {
            for e in rd.flatten() {
                let _ = std::fs::remove_dir_all(e.path());
            }
        }
    });
    let res = (|| -> Result<(), (String, String)> {
        for (si, st) in h.steps.iter().enumerate() {
            let mut kind = OPS[st.op as usize % OPS.len()];
            if !stacked && !kind.is_plain_api() {
                kind = [OpKind::Set, OpKind::Put, OpKind::Get, OpKind::Touch][st.op as usize % 4];
            }
            let ks = key_spec(h, st.key);
            let val = Val::new(&ks.name, 1 + st.handle as u32, si as u32, 17);
            let hi = st.handle as usize % handles.len();
            // where does the key live right now?
            let cands = wspec.candidate_dirs(root, &ks);
            let existing = cands.iter().map(|d| d.join(&ks.name)).find(|p| p.exists());
            // "refresh by hard link": the value handed to set/put is a link to the cached file itself
            let link_from = if st.linked && matches!(kind, OpKind::Set | OpKind::Put) { existing.as_ref().map(|p| p.to_string_lossy().into_owned()) } else { None };
            let val = match (&link_from, model.get(&ks.name)) {
                (Some(_), Some(cur)) => cur.clone(),
                _ => val,
            };
            let op = Op { kind, key: ks.clone(), val: val.clone(), pop: Pop::Value, nosy: false, link_from };
            if wspec.is_sharded() && cands.len() == 2 && cands[1].join(&ks.name).exists() && kind.is_lookup() {
                out.secondary_lookups += 1;
            }
            let (r, ev) = traced(&world, || {
                script_rng(st.fire, st.shard_draw as u64);
                exec(root, &handles[hi], &op)
            });
            let (ret, _side) = r.map_err(|p| ("c11:panic".to_string(), format!("step {} {:?}({}) panicked: {}", si, kind, ks.name, p)))?;
            out.steps += 1;
            let ctx = || format!("step {} {:?}({}) via handle {} on {:?}", si, kind, ks.name, hi, wspec);
            if ret.is_err() {
                return Err(("c11:error".into(), format!("{} failed: {}", ctx(), ret.short())));
            }
            let cur = snapshot(&root.join("W"));
            // --- explain every maintained directory, collect evictions
            let mut evicted_keys: Vec<String> = Vec::new();
            let mut evicted_after: Vec<String> = Vec::new();
            let mut maintained_dirs: BTreeSet<String> = BTreeSet::new();
            let publish_seq = ev.iter().find(|e| (e.call == "rename" || e.call == "link") && e.path2.ends_with(&format!("/{}", ks.name)) && !e.path2.contains(".kismet_temp")).map(|e| e.seq);
            for od in ev.iter().filter(|e| e.call == "opendir" && e.ok() && !e.path.ends_with(".kismet_temp")) {
                let rel = od.path.strip_prefix(&format!("{}/W", root_s)).map(|s| s.trim_start_matches('/').to_string());
                let Some(rel) = rel else { continue };
                if !maintained_dirs.insert(rel.clone()) {
                    return Err(("c11:double-maintenance".into(), format!("{}: directory {} listed twice in one operation", ctx(), od.path)));
                }
                let before = DirState::from_listing(od.listing.as_ref().unwrap());
                let after = DirState::from_snap(&cur, &rel);
                // The operation's own key: if it was published into this directory after the listing,
                // its final state is the operation's doing; if it was published before the listing
                // (forced maintenance after the insertion), it is part of the population, but the
                // harness then reads the returned handle, which may advance its atime: its reprieve
                // status is existentially quantified either way.
                let published_here = ev.iter().any(|e| (e.call == "rename" || e.call == "link") && e.path2 == format!("{}/{}", od.path, ks.name));
                let after_listing = publish_seq.map(|p| p > od.seq).unwrap_or(false);
                let own_here = published_here || before.files.contains_key(&ks.name);
                let own_unlinked = ev.iter().any(|e| e.call == "unlink" && e.ok() && e.path == format!("{}/{}", od.path, ks.name) && e.seq > od.seq && (!after_listing || e.seq < publish_seq.unwrap()));
                let ex = explain(&before, &after, cap, if own_here { Some(ks.name.as_str()) } else { None }, own_unlinked).map_err(|why| ("c11:unexplained-maintenance".to_string(), format!("{}: {} in {}", ctx(), why, od.path)))?;
                if published_here && !after_listing {
                    evicted_after.extend(ex.gone.iter().cloned());
                } else {
                    evicted_keys.extend(ex.gone.iter().cloned());
                }
            }
            // --- every disappearance must be one of those evictions
            for (p, e) in prev.iter().filter(|(p, e)| e.kind == 'f' && !p.contains(".kismet_temp") && !p.rsplit('/').next().unwrap_or("").starts_with('.')) {
                let name = p.rsplit('/').next().unwrap();
                let still = cur.contains_key(p);
                if !still {
                    let dir_rel = p.rsplit_once('/').map(|x| x.0).unwrap_or("");
                    let moved_ok = name == ks.name && kind.writes() && cur.iter().any(|(q, _)| q.rsplit('/').next() == Some(name) && !q.contains(".kismet_temp"));
                    if !(maintained_dirs.contains(dir_rel) && evicted_keys.iter().chain(evicted_after.iter()).any(|k| k == name)) && !moved_ok {
                        return Err(("c11:unexplained-disappearance".into(), format!("{}: entry {} disappeared but no Second Chance eviction of an over-capacity directory explains it", ctx(), p)));
                    }
                }
                let _ = e;
            }
            out.evictions += (evicted_keys.len() + evicted_after.len()) as u64;
            for k in &evicted_keys {
                // evictions by the maintenance that preceded the insertion: the model forgets the key;
                // if the operation then rewrote the key, the write below re-adds it
                model.remove(k);
            }
            // --- model semantics
            let lookup = |m: &BTreeMap<String, Val>, k: &str| -> Option<Val> { m.get(k).cloned().or_else(|| reader_model.get(k).cloned()) };
            // lookups see the state at the start of the operation, except that maintenance precedes
            // nothing in a pure lookup; for ensure/get_or_update the lookup precedes the write
            let expect_ret: Option<Option<Val>>; // Some(None)=miss, Some(Some(v))=value, None = n/a
            match kind {
                OpKind::Get => expect_ret = Some(lookup(&model, &ks.name)),
                OpKind::Touch => {
                    let present = lookup(&model, &ks.name).is_some();
                    if ret != Ret::Bool(present) {
                        return Err(("c11:touch".into(), format!("{}: returned {} but the map says present={}", ctx(), ret.short(), present)));
                    }
                    expect_ret = None;
                }
                OpKind::Set | OpKind::SetTemp => {
                    model.insert(ks.name.clone(), val.clone());
                    writers_used.insert(st.handle % h.handles.max(1));
                    expect_ret = None;
                }
                OpKind::Put | OpKind::PutTemp => {
                    model.entry(ks.name.clone()).or_insert(val.clone());
                    writers_used.insert(st.handle % h.handles.max(1));
                    expect_ret = None;
                }
                OpKind::Ensure | OpKind::GouPromote | OpKind::GouAccept | OpKind::GouReplace => {
                    // NOTE: evictions of this very step happened inside the write path, i.e. after the lookup.
                    // Re-evaluate the lookup against the pre-eviction model for hits in the writer.
                    let pre_writer = prev.iter().find(|(p, e)| e.kind == 'f' && !p.contains(".kismet_temp") && p.rsplit('/').next() == Some(ks.name.as_str())).and_then(|(_, e)| e.val.clone());
                    let hit = pre_writer.clone().or_else(|| reader_model.get(&ks.name).cloned());
                    match (kind, hit) {
                        (OpKind::GouReplace, _) => {
                            model.insert(ks.name.clone(), val.clone());
                            expect_ret = Some(Some(val.clone()));
                        }
                        (_, Some(v)) => {
                            if pre_writer.is_none() && kind != OpKind::GouAccept {
                                // promotion of the read-only copy (put semantics)
                                model.entry(ks.name.clone()).or_insert(v.clone());
                            }
                            expect_ret = Some(Some(v));
                        }
                        (_, None) => {
                            model.entry(ks.name.clone()).or_insert(val.clone());
                            expect_ret = Some(Some(val.clone()));
                        }
                    }
                    writers_used.insert(st.handle % h.handles.max(1));
                }
            }
            // maintenance that ran after the operation's own insertion (forced maintenance of an
            // over-full shard, or the extra random shard) may evict what was just written
            for k in &evicted_after {
                model.remove(k);
            }
            if let Some(exp) = expect_ret {
                let got = match &ret {
                    Ret::Miss => None,
                    Ret::File(g) => match &g.val {
                        Ok(v) => Some(v.clone()),
                        Err(e) => return Err(("c11:garbage".into(), format!("{}: returned a file that is not a complete value: {}", ctx(), e))),
                    },
                    other => return Err(("c11:result".into(), format!("{}: unexpected result {}", ctx(), other.short()))),
                };
                if got != exp {
                    return Err(("c11:lookup-mismatch".into(), format!("{}: returned {:?} but the map predicts {:?}", ctx(), got.map(|v| v.header()), exp.map(|v| v.header()))));
                }
            }
            // --- the disk agrees with the model: exactly one copy per modelled key, none for others
            let mut on_disk: BTreeMap<String, Vec<(String, Option<Val>)>> = BTreeMap::new();
            for (p, e) in cur.iter().filter(|(p, e)| e.kind == 'f' && !p.contains(".kismet_temp") && !p.rsplit('/').next().unwrap_or("").starts_with('.')) {
                on_disk.entry(p.rsplit('/').next().unwrap().to_string()).or_default().push((p.clone(), e.val.clone()));
            }
            for (k, copies) in &on_disk {
                if copies.len() > 1 {
                    return Err(("c11:two-copies".into(), format!("{}: key {} is stored twice: {:?}", ctx(), k, copies.iter().map(|c| &c.0).collect::<Vec<_>>())));
                }
                match model.get(k) {
                    Some(v) if copies[0].1.as_ref() == Some(v) => {}
                    other => return Err(("c11:disk-model-mismatch".into(), format!("{}: on disk {} holds {:?} but the map holds {:?}", ctx(), copies[0].0, copies[0].1.as_ref().map(|v| v.header()), other.map(|v| v.header())))),
                }
                // placement: one of the key's two candidate directories
                let ksx = (0..h.keys.len()).map(|i| key_spec(h, i as u8)).find(|x| &x.name == k);
                if let Some(ksx) = ksx {
                    let ok = wspec.candidate_dirs(Path::new(""), &ksx).iter().any(|d| format!("W/{}", copies[0].0) == format!("{}/{}", d.to_string_lossy(), k));
                    if !ok {
                        return Err(("c11:misplaced".into(), format!("{}: {} is not in one of the key's candidate directories", ctx(), copies[0].0)));
                    }
                }
            }
            for k in model.keys() {
                if !on_disk.contains_key(k) {
                    return Err(("c11:lost-entry".into(), format!("{}: the map holds {} but no file exists and no eviction explains it", ctx(), k)));
                }
            }
            // --- a successful write consumed its source
            if kind.writes() && matches!(ret, Ret::Unit) {
                let left: Vec<String> = crate::shim::bypass(|| std::fs::read_dir(staging(root)).map(|rd| rd.flatten().map(|e| e.file_name().to_string_lossy().into_owned()).collect()).unwrap_or_default());
                if !left.is_empty() {
                    return Err(("c11:source-not-consumed".into(), format!("{}: returned Ok but the source file still exists: {:?}", ctx(), left)));
                }
            }
            crate::shim::bypass(|| {
                let _ = std::fs::remove_dir_all(staging(root));
            });
            prev = cur;
        }
        Ok(())
    })();
    let res = res.and_then(|_| {
        for d in &app_dirs {
            let ok = crate::shim::bypass(|| std::fs::read(d.join(".app_state"))).map(|b| b == b"application state").unwrap_or(false);
            let mt = crate::shim::bypass(|| std::fs::metadata(d.join(".app_state"))).map(|m| {
                use std::os::unix::fs::MetadataExt;
                m.mtime() as i128 * 1_000_000_000 + m.mtime_nsec() as i128
            }).unwrap_or(0);
            if !ok || mt != old {
                return Err(("c11:application-file-disturbed".to_string(), format!("{} was removed or altered during the history", d.join(".app_state").display())));
            }
        }
        Ok(())
    });
    out.writing_handles = writers_used.len();
    drop(handles);
    cleanup();
    res.map(|_| out)
}

pub fn replay(v: &serde_json::Value) -> Result<(), String> {
    let h: Hist = serde_json::from_value(v["history"].clone()).map_err(|e| e.to_string())?;
    drop_privileges();
    let scratch = Scratch::new("c11r");
    judge(&scratch.path, &h).map(|_| ()).map_err(|(s, d)| format!("{}: {}", s, d))
}

pub fn run(ctx: &Ctx) -> Report {
    let mut rep = Report::default();
    rep.assumptions.insert(drop_privileges());
    let scratch = Scratch::new("c11");
    let cases = ctx.share(ctx.scale(16_000, 300_000)) as u32;
    let rep_cell = std::cell::RefCell::new(&mut rep);
    let found = prop_search(ctx, 11, cases, 500, &gen_hist(200), |h, exploring| {
        let r = judge(&scratch.path, h);
        if exploring {
            let mut rep = rep_cell.borrow_mut();
            let nontrivial = match &r {
                Ok(o) => o.evictions > 0 || o.secondary_lookups > 0 || o.writing_handles >= 2,
                Err(_) => false,
            };
            rep.case(if nontrivial { Some(fnv(format!("{:?}", h).as_bytes())) } else { None });
            rep.label(["fe:plain", "fe:sharded", "fe:stacked over plain", "fe:stacked over sharded"][h.fe as usize % 4]);
            if let Ok(o) = &r {
                rep.extra_add("steps_executed", o.steps);
                rep.extra_add("evictions_explained", o.evictions);
                rep.extra_add("lookups_of_keys_in_secondary_shard", o.secondary_lookups);
                if o.evictions > 0 {
                    rep.label("history with evictions");
                }
                if o.writing_handles >= 2 {
                    rep.label("history with >=2 writing handles");
                }
            }
            if nontrivial && rep.samples.len() < 2 && h.steps.len() < 12 {
                let s = json!({"history": h});
                rep.sample(s);
            }
        }
        r.map(|_| ()).map_err(|(s, d)| format!("{}|{}", s, d))
    });
    drop(rep_cell);
    if let Some((msg, h)) = found {
        let (sig, detail) = msg.split_once('|').map(|(a, b)| (a.to_string(), b.to_string())).unwrap_or(("c11".into(), msg.clone()));
        rep.violation(&sig, detail, json!({"history": h}));
    }
    if rep.samples.is_empty() {
        rep.sample(json!({"note": "histories of 1-199 steps; see labels"}));
    }
    rep
}
