//! C07 — maintenance evicts exactly what Second Chance prescribes, on disk.
use crate::common::*;
use crate::direxplain::{explain, DirState};
use crate::fe::*;
use proptest::prelude::*;
use serde::{Deserialize, Serialize};
use serde_json::json;
use std::path::Path;

#[derive(Clone, Debug, Serialize, Deserialize)]
pub struct Case {
    /// (mtime slot, mark: 0 unread, 1 atime == mtime, 2 atime > mtime)
    pub files: Vec<(u8, u8)>,
    pub subdirs: u8,
    pub capacity: usize,
    /// 0 prune, 1 plain set, 2 plain put, 3 sharded set, 4 stacked ensure (plain writer), 5 stacked set (sharded writer)
    pub route: u8,
    /// the write targets an existing entry (index into files) instead of a fresh key
    pub own_existing: Option<u8>,
    /// a dangling symbolic link sits among the entries (oldest, unread): it is an entry like any
    /// other for the queue, except that it cannot be re-stamped
    #[serde(default)]
    pub symlink: bool,
}

pub fn gen_case() -> impl Strategy<Value = Case> {
    (prop::collection::vec((prop_oneof![9 => 0u8..6, 1 => 6u8..9], 0u8..3), 0..13), 0u8..3, 0u8..16, 0u8..6, prop::option::weighted(0.3, 0u8..12), prop::bool::weighted(0.15)).prop_map(|(files, subdirs, capsel, route, own, symlink)| {
        let n = files.len();
        let capacity = (capsel as usize * (n + 2)) >> 4; // monotone map onto 0..=n+1
        Case { files, subdirs, capacity, route, own_existing: own.filter(|_| n > 0).map(|o| (o as usize * n / 12) as u8), symlink }
    })
}

const DAY: i128 = 86_400_000_000_000;

pub fn plant(dir: &Path, files: &[(u8, u8)], subdirs: u8, base: i128) {
    crate::shim::bypass(|| {
        std::fs::create_dir_all(dir).unwrap();
        for (i, (slot, mark)) in files.iter().enumerate() {
            let name = format!("f{:02}", i);
            let p = dir.join(&name);
            plant_file(&p, &Val::new(&name, 0, i as u32, 17).encode(), 0o444);
            // slots 0-5: days in the past (ties abound); slots 6-8: hours in the FUTURE (a peer with a fast clock)
            let m = if *slot >= 6 { now_ns() + (*slot as i128 - 5) * 3_600_000_000_000 } else { base + *slot as i128 * 1_000_000_000_000 };
            let a = match mark {
                0 => m - 120_000_000_000,
                1 => m,
                _ => m + 5_000_000_000,
            };
            set_times_ns(&p, a, m).unwrap();
        }
        if subdirs >= 1 {
            std::fs::create_dir_all(dir.join("straydir")).unwrap();
        }
        if subdirs >= 2 {
            std::fs::create_dir_all(dir.join("nonempty")).unwrap();
            std::fs::write(dir.join("nonempty").join("inner"), b"x").unwrap();
            set_times_ns(&dir.join("nonempty").join("inner"), base, base).unwrap();
        }
    })
}

pub fn judge(root: &Path, c: &Case) -> Result<(bool, bool), (String, String)> {
    let base = now_ns() - 10 * DAY;
    let key_hash = 0x1234_5678_9abc_def0u64;
    // (an ensure on an existing key is a hit and does not write: route 4 always uses a fresh key)
    let own_name = match c.own_existing {
        Some(i) if c.route != 4 => format!("f{:02}", i),
        _ => "zz".to_string(),
    };
    let key = KeySpec::new(&own_name, key_hash, key_hash ^ 0xffff);
    let cap = c.capacity;
    // where the population lives, and through which front-end maintenance is reached
    let (dir_rel, spec): (String, Option<StackSpec>) = match c.route {
        0 | 1 | 2 => ("cache".into(), None),
        3 | 5 => {
            // shard counts below 2 are documented to behave as 2 (capacity split over two shards)
            let d = DirSpec::Sharded { dir: "cache".into(), shards: [2usize, 0, 1][c.files.len() % 3], cap: 2 * cap.max(1) };
            let dirs = d.candidate_dirs(Path::new(""), &key);
            (dirs[0].to_string_lossy().into_owned(), Some(StackSpec { writer: Some(d), readers: vec![], checker: Checker::None, auto_sync: true }))
        }
        _ => ("cache".into(), Some(StackSpec { writer: Some(DirSpec::Plain { dir: "cache".into(), cap }), readers: vec![], checker: Checker::None, auto_sync: true })),
    };
    let eff_cap = if matches!(c.route, 3 | 5) { cap.max(1) } else { cap };
    let dir = root.join(&dir_rel);
    plant(&dir, &c.files, c.subdirs, base);
    if c.symlink {
        crate::shim::bypass(|| {
            let p = dir.join("dangling");
            let _ = std::os::unix::fs::symlink(dir.join("no-such-target"), &p);
            // older than everything, unread (its own timestamps, not the target's)
            let cp = std::ffi::CString::new(p.to_string_lossy().as_bytes()).unwrap();
            let m = base - 5_000_000_000_000;
            let ts = |ns: i128| libc::timespec { tv_sec: ns.div_euclid(1_000_000_000) as i64, tv_nsec: ns.rem_euclid(1_000_000_000) as i64 };
            let times = [ts(m - 120_000_000_000), ts(m)];
            unsafe { libc::utimensat(libc::AT_FDCWD, cp.as_ptr(), times.as_ptr(), libc::AT_SYMLINK_NOFOLLOW) };
        });
    }
    let before_snap = snapshot(&dir);
    let world = trace_world(&[root]);
    let op = Op { kind: OpKind::Set, key: key.clone(), val: Val::new(&own_name, 7, 7, 17), pop: Pop::Value, nosy: false , link_from: None};
    let (res, ev) = traced(&world, || {
        script_rng(true, 1);
        match c.route {
            0 => {
                let r = kismet_cache::raw_cache::prune(dir.clone(), cap);
                (r.map(|x| format!("{:?}", x)).map_err(|e| e.to_string()), None)
            }
            1 | 2 => {
                let h = open_dir(root, &DirSpec::Plain { dir: "cache".into(), cap });
                let mut op = op.clone();
                op.kind = if c.route == 1 { OpKind::Set } else { OpKind::Put };
                let (r, _) = exec(root, &h, &op);
                (Ok(r.short()), Some(r))
            }
            3 => {
                let h = open_dir(root, spec.as_ref().unwrap().writer.as_ref().unwrap());
                let (r, _) = exec(root, &h, &op);
                (Ok(r.short()), Some(r))
            }
            4 => {
                let h = open_stack(root, spec.as_ref().unwrap());
                let mut op = op.clone();
                op.kind = OpKind::Ensure;
                let (r, _) = exec(root, &h, &op);
                (Ok(r.short()), Some(r))
            }
            _ => {
                let h = open_stack(root, spec.as_ref().unwrap());
                let (r, _) = exec(root, &h, &op);
                (Ok(r.short()), Some(r))
            }
        }
    });
    let after_snap = snapshot(&dir);
    let cleanup = || crate::shim::bypass(|| {
        let _ = std::fs::remove_dir_all(root.join("cache"));
        let _ = std::fs::remove_dir_all(root.join("staging"));
    });
    let (desc, ret) = match res {
        Ok((Ok(d), r)) => (d, r),
        Ok((Err(e), _)) => {
            cleanup();
            return Err(("maintenance:error".into(), format!("prune failed: {}", e)));
        }
        Err(p) => {
            cleanup();
            return Err(("maintenance:panic".into(), format!("panic: {}", p)));
        }
    };
    if let Some(r) = &ret {
        if r.is_err() {
            cleanup();
            return Err(("maintenance:error".into(), format!("operation failed: {}", r.short())));
        }
    }
    // stray directories are never deleted nor counted (checked recursively)
    for (p, e) in &before_snap {
        if e.kind == 'd' || p.starts_with("nonempty/") {
            if !after_snap.contains_key(p) {
                cleanup();
                return Err(("maintenance:dir-removed".into(), format!("{} disappeared", p)));
            }
        }
    }
    let dir_s = dir.to_string_lossy().into_owned();
    let mut evicted = false;
    let mut interesting = false;
    let result = (|| {
        if c.route == 0 {
            let before = DirState::from_snap(&before_snap, "");
            let after = DirState::from_snap(&after_snap, "");
            let ex = explain(&before, &after, cap, None, false)?;
            let expect = format!("({}, {})", before.files.len() - ex.gone.len(), ex.gone.len());
            if desc != expect {
                return Err(format!("prune returned {} but the directory shows (remaining, deleted) = {}", desc, expect));
            }
            evicted = ex.evicted_any;
            interesting = ex.interesting;
            return Ok(());
        }
        // through a cache: the maintenance ran before the operation's own insertion, on the listing the shim captured
        let opens: Vec<&crate::shim::Event> = ev.iter().filter(|e| e.call == "opendir" && e.path == dir_s && e.ok()).collect();
        if opens.len() != 1 {
            return Err(format!("expected exactly one listing of {} with the trigger scripted to fire, saw {}", dir_s, opens.len()));
        }
        let od = opens[0];
        let publish = ev.iter().find(|e| (e.call == "rename" || e.call == "link") && e.path2 == format!("{}/{}", dir_s, own_name));
        match publish {
            Some(p) if p.seq > od.seq => {}
            Some(_) => return Err("maintenance ran after the operation's own insertion".to_string()),
            None => return Err("no publication event for the operation's key".to_string()),
        }
        let before = DirState::from_listing(od.listing.as_ref().unwrap());
        let after = DirState::from_snap(&after_snap, "");
        let own_unlinked = ev.iter().any(|e| e.call == "unlink" && e.ok() && e.path == format!("{}/{}", dir_s, own_name) && e.seq > od.seq && e.seq < publish.unwrap().seq);
        let ex = explain(&before, &after, eff_cap, Some(&own_name), own_unlinked)?;
        // every deletion in this directory must be one of the explained evictions
        for e in ev.iter().filter(|e| e.call == "unlink" && e.ok() && e.path.starts_with(&format!("{}/", dir_s)) && !e.path.contains(".kismet_temp")) {
            let name = e.path.rsplit('/').next().unwrap().to_string();
            if !ex.gone.contains(&name) {
                return Err(format!("{} was unlinked but is not an explained eviction", e.path));
            }
        }
        evicted = ex.evicted_any;
        interesting = ex.interesting;
        Ok(())
    })();
    cleanup();
    result.map(|_| (evicted, interesting)).map_err(|why| {
        let sig = if why.contains("within capacity") {
            "maintenance:touched-within-capacity"
        } else if why.contains("must evict exactly") {
            "maintenance:wrong-count"
        } else if why.contains("not moved to the back") || why.contains("was not moved back") || why.contains("read mark is still set") {
            "maintenance:reprieve"
        } else if why.contains("removed by maintenance") {
            "maintenance:non-entry-removed"
        } else if why.contains("prune returned") {
            "maintenance:return-value"
        } else if why.contains("after the operation's own insertion") {
            "maintenance:after-insertion"
        } else {
            "maintenance:not-second-chance"
        };
        (sig.to_string(), why)
    })
}

/// Metamorphic variant under concurrency: a peer removes one read-marked file X immediately before
/// call k of the maintenance. Relation to the undisturbed run on an identical population (X seen)
/// or on the population without X (X not seen): the files deleted are those of that reference run
/// plus X, and every file it moved to the back (other than X) is still moved to the back with its
/// read mark cleared — a file that vanishes in the middle of a maintenance must not derail the
/// rest of it.
pub fn judge_vanish(root: &Path, c: &Case, k: u32) -> Result<bool, (String, String)> {
    let base = now_ns() - 10 * DAY;
    let dir = root.join("cache");
    let cap = c.capacity;
    let run = |peer: Option<(u32, String)>| -> Result<(Vec<String>, Vec<String>, u32, bool, u32), (String, String)> {
        plant(&dir, &c.files, 0, base);
        let before = snapshot(&dir);
        let world = trace_world(&[root]);
        let victim = peer.as_ref().map(|p| dir.join(&p.1));
        let (r, ev) = traced(&world, || {
            if let (Some((k, _)), Some(v)) = (&peer, victim.clone()) {
                crate::shim::set_action(Some(Box::new(move || {
                    let _ = std::fs::remove_file(&v);
                })));
                crate::shim::set_fault(crate::shim::Fault::Action(*k));
            }
            crate::shim::begin_op(0);
            let r = kismet_cache::raw_cache::prune(dir.clone(), cap);
            let calls = crate::shim::op_calls();
            let hit = crate::shim::fault_was_hit();
            crate::shim::set_fault(crate::shim::Fault::None);
            crate::shim::set_action(None);
            (r.map_err(|e| e.to_string()), calls, hit)
        });
        let after = snapshot(&dir);
        crate::shim::bypass(|| {
            let _ = std::fs::remove_dir_all(&dir);
        });
        let (res, calls, hit) = r.map_err(|p| ("maintenance:panic".to_string(), p))?;
        if let Err(e) = res {
            // a directory entry that vanished is not an error for maintenance
            return Err(("maintenance:vanished-file-is-an-error".into(), format!("prune failed because a file vanished concurrently: {}", e)));
        }
        let gone: Vec<String> = before.keys().filter(|k| !after.contains_key(*k)).cloned().collect();
        let restamped: Vec<String> = before.iter().filter(|(k, b)| after.get(*k).map(|a| a.mtime != b.mtime && a.atime < a.mtime).unwrap_or(false)).map(|(k, _)| k.clone()).collect();
        // the plan is fixed once the listing is complete
        let listed = ev.iter().find(|e| e.call == "readdir" && e.ret == 0).map(|e| e.idx).unwrap_or(u32::MAX);
        Ok((gone, restamped, calls, hit, listed))
    };
    let (gone_ref, restamped_ref, calls, _, _listed) = run(None)?;
    if restamped_ref.len() < 2 || k >= calls {
        return Ok(false);
    }
    // X: the first file the reference run moved back
    let x = restamped_ref[0].clone();
    let (gone, restamped, _, hit, _) = run(Some((k, x.clone())))?;
    if !hit {
        return Ok(false);
    }
    // Every file is sampled at one instant of the maintenance, so X either was seen (the plan is
    // the undisturbed one) or was not (the plan is that of the population without X); which of
    // the two applies at a given k is the implementation's business.
    let agrees = |gone_ref: &Vec<String>, restamped_ref: &Vec<String>| -> Result<(), (String, String)> {
        for g in gone_ref {
            if !gone.contains(g) {
                return Err(("maintenance:vanish-changes-victims".into(), format!("with {} vanishing before call {}, victim {} of the undisturbed run survived", x, k, g)));
            }
        }
        for g in &gone {
            if !gone_ref.contains(g) && *g != x {
                return Err(("maintenance:vanish-changes-victims".into(), format!("with {} vanishing before call {}, {} was deleted although the undisturbed run keeps it", x, k, g)));
            }
        }
        for r in restamped_ref.iter().filter(|r| **r != x) {
            if !restamped.contains(r) {
                return Err(("maintenance:vanish-derails-reprieves".into(), format!("with {} vanishing before call {} of the maintenance, spared file {} was not moved to the back of the queue (its read mark is still set)", x, k, r)));
            }
        }
        Ok(())
    };
    if let Err(seen) = agrees(&gone_ref, &restamped_ref) {
        // reference for "X was never seen": X is removed before the first call of the maintenance
        let (gone_wo, restamped_wo, _, hit0, _) = run(Some((0, x.clone())))?;
        if !hit0 || agrees(&gone_wo, &restamped_wo).is_err() {
            return Err(seen);
        }
    }
    Ok(true)
}

pub fn replay(v: &serde_json::Value) -> Result<(), String> {
    let c: Case = serde_json::from_value(v["case"].clone()).map_err(|e| e.to_string())?;
    if let Some(k) = v["vanish_before_call"].as_u64() {
        drop_privileges();
        let scratch = Scratch::new("c07r");
        return judge_vanish(&scratch.path, &c, k as u32).map(|_| ()).map_err(|(s, d)| format!("{}: {}", s, d));
    }
    drop_privileges();
    let scratch = Scratch::new("c07r");
    judge(&scratch.path, &c).map(|_| ()).map_err(|(s, d)| format!("{}: {}", s, d))
}

pub fn run(ctx: &Ctx) -> Report {
    let mut rep = Report::default();
    rep.assumptions.insert(drop_privileges());
    let scratch = Scratch::new("c07");
    let cases = ctx.share(ctx.scale(200_000, 3_000_000)) as u32;
    let rep_cell = std::cell::RefCell::new(&mut rep);
    let found = prop_search(ctx, 7, cases, 1500, &gen_case(), |c, exploring| {
        let r = judge(&scratch.path, c);
        if exploring {
            let mut rep = rep_cell.borrow_mut();
            let nontrivial = matches!(r, Ok((true, true)));
            let h = fnv(format!("{:?}", c).as_bytes());
            rep.case(if nontrivial { Some(h) } else { None });
            rep.label(["route:prune", "route:plain set", "route:plain put", "route:sharded set", "route:stacked ensure (plain writer)", "route:stacked set (sharded writer)"][c.route as usize]);
            if let Ok((true, _)) = r {
                rep.label("evicted");
            }
            if c.own_existing.is_some() && c.route != 0 {
                rep.label("write targets an existing entry");
            }
            if c.subdirs > 0 {
                rep.label("stray subdirectories present");
            }
            if c.symlink {
                rep.label("dangling symbolic link among the entries");
            }
            if c.files.iter().filter(|f| f.0 >= 6).count() >= 2 {
                rep.label("two or more files dated in the future");
            }
            if nontrivial && rep.samples.len() < 3 {
                let s = json!({"case": c});
                rep.sample(s);
            }
        }
        r.map(|_| ()).map_err(|(s, d)| format!("{}|{}", s, d))
    });
    drop(rep_cell);
    if let Some((msg, c)) = found {
        let (sig, detail) = msg.split_once('|').map(|(a, b)| (a.to_string(), b.to_string())).unwrap_or(("maintenance".into(), msg.clone()));
        rep.violation(&sig, detail, json!({"case": c}));
    }
    // concurrency variant: a read-marked file vanishes before each call of the maintenance in turn
    let mut rng = ctx.rng(77);
    let pops = ctx.share(ctx.scale(320, 6000));
    for _ in 0..pops {
        let n = 3 + rng.below(8) as usize;
        let files: Vec<(u8, u8)> = (0..n).map(|_| (rng.below(6) as u8, if rng.chance(3, 5) { 1 + rng.below(2) as u8 } else { 0 })).collect();
        let c = Case { files, subdirs: 0, capacity: rng.below(n as u64) as usize, route: 0, own_existing: None, symlink: false };
        for k in 0..80u32 {
            match judge_vanish(&scratch.path, &c, k) {
                Ok(true) => {
                    rep.case(Some(fnv(format!("vanish{:?}{}", c, k).as_bytes())));
                    rep.label("route:prune with a read-marked file vanishing mid-maintenance");
                }
                Ok(false) => {}
                Err((sig, detail)) => {
                    rep.violation(&sig, detail, json!({"case": c, "vanish_before_call": k}));
                    break;
                }
            }
        }
    }
    rep
}
