#![no_main]
//! libFuzzer target: bytes -> structured case -> the same oracle as the proptest check.
//! A violation panics (libFuzzer saves the input); `kv fuzz-replay` converts it to a replay file.
use libfuzzer_sys::fuzz_target;

fuzz_target!(|data: &[u8]| {
    if let Err(e) = kvlib::fuzzdec::run_conc_err(data) {
        // make the failure visible to libFuzzer as a crash of this input
        eprintln!("VIOLATION-IN-TARGET fuzz_conc_err: {}", e);
        std::process::abort();
    }
});
